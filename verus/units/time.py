# Unit "time" (C16): Time / Duration / TimeInterval / WireTimestamp arithmetic and conversions.
# Contracts are exact integer equalities on the fixed-point bit patterns:
#   Time.inner.bits      : u128, value = bits * 2^-32 ns
#   Duration.inner.bits  : i128, value = bits * 2^-32 ns
#   TimeInterval.0.bits  : i64,  value = bits * 2^-16 ns
I = 'statime/src/time/instant.rs'
D = 'statime/src/time/duration.rs'
TS = 'statime/src/datastructures/common/timestamp.rs'
TI = 'statime/src/datastructures/common/time_interval.rs'

PRELUDE = r'''
pub open spec const NS: int = 1_000_000_000;           // nanoseconds per second
pub open spec const ONE: int = 0x1_0000_0000;          // 2^32: one nanosecond in Time/Duration bits
pub open spec const SEC: int = 1_000_000_000int * 0x1_0000_0000int;  // one second in bits
pub open spec const T48: int = 0x1_0000_0000_0000int * (1_000_000_000int * 0x1_0000_0000int); // 2^48 s in bits

// -- spec functions written from the property statement (IEEE 1588 5.3.3 Timestamp, 5.3.2 TimeInterval)
pub open spec fn spec_secs(bits: int) -> int { bits / SEC }
pub open spec fn spec_subsec_nanos(bits: int) -> int { (bits % SEC) / ONE }
pub open spec fn spec_subnano(bits: int) -> int { (bits % ONE) / 0x1_0000 }     // in 2^-16 ns units
pub open spec fn spec_time_of_wire(seconds: int, nanos: int) -> int { (seconds * NS + nanos) * ONE }

pub closed spec fn tb(t: Time) -> int { t.inner.bits as int }
pub closed spec fn db(d: Duration) -> int { d.inner.bits as int }
pub open spec fn ib(i: TimeInterval) -> int { i.0.bits as int }

pub closed spec fn mk_time(bits: int) -> Time { Time { inner: U96F32 { bits: bits as u128 } } }
pub closed spec fn mk_dur(bits: int) -> Duration { Duration { inner: I96F32 { bits: bits as i128 } } }

pub closed spec fn dbits(d: Duration) -> i128 { d.inner.bits }


impl FromSpecImpl<WireTimestamp> for Time {
    open spec fn obeys_from_spec() -> bool { true }
    open spec fn from_spec(ts: WireTimestamp) -> Time { mk_time(spec_time_of_wire(ts.seconds as int, ts.nanos as int)) }
}
impl FromSpecImpl<TimeInterval> for Duration {
    open spec fn obeys_from_spec() -> bool { true }
    open spec fn from_spec(i: TimeInterval) -> Duration { mk_dur(ib(i) * 0x1_0000) }
}
impl FromSpecImpl<Duration> for TimeInterval {
    open spec fn obeys_from_spec() -> bool { true }
    // floor to 2^-16 ns, then the low 64 bits (the wrap is visible in the spec: callers need the range lemma)
    open spec fn from_spec(d: Duration) -> TimeInterval { TimeInterval(I48F16 { bits: ((dbits(d) >> 16u32) as i64) }) }
}

impl AddSpecImpl<Duration> for Time {
    open spec fn obeys_add_spec() -> bool { true }
    open spec fn add_req(self, rhs: Duration) -> bool { 0 <= tb(self) + db(rhs) <= U128_MAX }
    open spec fn add_spec(self, rhs: Duration) -> Time { mk_time(tb(self) + db(rhs)) }
}
impl SubSpecImpl<Duration> for Time {
    open spec fn obeys_sub_spec() -> bool { true }
    open spec fn sub_req(self, rhs: Duration) -> bool { db(rhs) > I128_MIN && 0 <= tb(self) - db(rhs) <= U128_MAX }
    open spec fn sub_spec(self, rhs: Duration) -> Time { mk_time(tb(self) - db(rhs)) }
}
impl SubSpecImpl<Time> for Time {
    open spec fn obeys_sub_spec() -> bool { true }
    open spec fn sub_req(self, rhs: Time) -> bool { tb(self) <= I128_MAX && tb(rhs) <= I128_MAX }
    open spec fn sub_spec(self, rhs: Time) -> Duration { mk_dur(tb(self) - tb(rhs)) }
}
impl NegSpecImpl for Duration {
    open spec fn obeys_neg_spec() -> bool { true }
    open spec fn neg_req(self) -> bool { db(self) > I128_MIN }
    open spec fn neg_spec(self) -> Duration { mk_dur(-db(self)) }
}
impl AddSpecImpl<Duration> for Duration {
    open spec fn obeys_add_spec() -> bool { true }
    open spec fn add_req(self, rhs: Duration) -> bool { I128_MIN <= db(self) + db(rhs) <= I128_MAX }
    open spec fn add_spec(self, rhs: Duration) -> Duration { mk_dur(db(self) + db(rhs)) }
}
impl SubSpecImpl<Duration> for Duration {
    open spec fn obeys_sub_spec() -> bool { true }
    open spec fn sub_req(self, rhs: Duration) -> bool { db(rhs) > I128_MIN && I128_MIN <= db(self) - db(rhs) <= I128_MAX }
    open spec fn sub_spec(self, rhs: Duration) -> Duration { mk_dur(db(self) - db(rhs)) }
}
impl<TF: ToFixed> MulSpecImpl<TF> for Duration {
    open spec fn obeys_mul_spec() -> bool { true }
    open spec fn mul_req(self, rhs: TF) -> bool {
        rhs.convertible() && I128_MIN <= rhs.scaled(32) <= I128_MAX
        && I128_MIN <= fdiv(db(self) * rhs.scaled(32), ONE) <= I128_MAX
    }
    open spec fn mul_spec(self, rhs: TF) -> Duration { mk_dur(fdiv(db(self) * rhs.scaled(32), ONE)) }
}
impl<TF: ToFixed> DivSpecImpl<TF> for Duration {
    open spec fn obeys_div_spec() -> bool { true }
    open spec fn div_req(self, rhs: TF) -> bool {
        rhs.convertible() && I128_MIN <= rhs.scaled(32) <= I128_MAX && rhs.scaled(32) != 0
        && I128_MIN <= tdiv(db(self) * ONE, rhs.scaled(32)) <= I128_MAX
    }
    open spec fn div_spec(self, rhs: TF) -> Duration { mk_dur(tdiv(db(self) * ONE, rhs.scaled(32))) }
}
'''

def ff(name, **kw):
    d = dict(name=name); d.update(kw); return d

UNIT = dict(
    name='time',
    shims=['fixed.rs'],
    renames=[(r'crate::datastructures::common::TimeInterval', 'TimeInterval')],
    prelude=PRELUDE,
    items=[
        dict(kind='struct', file=I, name='Time'),
        dict(kind='struct', file=D, name='Duration'),
        dict(kind='struct', file=TI, name='TimeInterval'),
        dict(kind='struct', file=TS, name='WireTimestamp'),
        dict(kind='impl', file=I, header='impl Time', fns=[
            ff('from_secs', ret='r', ensures=['tb(r) == secs as int * SEC']),
            ff('from_millis', ret='r', ensures=['tb(r) == millis as int * (1_000_000 * ONE)']),
            ff('from_micros', ret='r', ensures=['tb(r) == micros as int * (1_000 * ONE)']),
            ff('from_nanos', ret='r', ensures=['tb(r) == nanos as int * ONE']),
            ff('from_fixed_nanos', ret='r',
               requires=['nanos.convertible()', '0 <= nanos.scaled(32) <= U128_MAX'],
               ensures=['tb(r) == nanos.scaled(32)']),
            ff('nanos', ret='r', ensures=['r.b() == tb(*self)']),
            ff('subsec_nanos', ret='r', ensures=['r as int == spec_subsec_nanos(tb(*self))', 'r < 1_000_000_000']),
            ff('secs', ret='r',
               requires=['tb(*self) < 0x1_0000_0000_0000_0000 * SEC'],
               ensures=['r as int == spec_secs(tb(*self))']),
            ff('subnano', ret='r', ensures=['ib(r) == spec_subnano(tb(*self))', '0 <= ib(r) < 0x1_0000']),
        ]),
        dict(kind='impl', file=I, header='impl From<WireTimestamp> for Time', fns=[ff('from', ret='r')]),
        dict(kind='impl', file=I, header='impl Add<Duration> for Time', verbatim=['type Output = Time;'], fns=[ff('add')]),
        dict(kind='impl', file=I, header='impl Sub<Duration> for Time', verbatim=['type Output = Time;'], fns=[ff('sub')]),
        dict(kind='impl', file=I, header='impl Sub<Time> for Time', verbatim=['type Output = Duration;'], fns=[ff('sub')]),
        # `From<Time> for WireTimestamp` needs a precondition (seconds must fit u64: `secs()` panics/wraps
        # otherwise), which Verus cannot attach to a trait impl: moved to an inherent impl (rule 4)
        dict(kind='impl', file=TS, header='impl From<Time> for WireTimestamp', **{'as': 'impl WireTimestamp'},
             fns=[ff('from', ret='r', requires=['tb(instant) < 0x1_0000_0000_0000_0000 * SEC'],
                     ensures=['r.seconds as int == spec_secs(tb(instant))', 'r.nanos as int == spec_subsec_nanos(tb(instant))'])]),
        dict(kind='impl', file=D, header='impl Duration', fns=[
            ff('from_secs', ret='r', ensures=['db(r) == secs as int * SEC']),
            ff('from_millis', ret='r', ensures=['db(r) == millis as int * (1_000_000 * ONE)']),
            ff('from_micros', ret='r', ensures=['db(r) == micros as int * (1_000 * ONE)']),
            ff('from_nanos', ret='r', ensures=['db(r) == nanos as int * ONE']),
            ff('from_fixed_nanos', ret='r',
               requires=['nanos.convertible()', 'I128_MIN <= nanos.scaled(32) <= I128_MAX'],
               ensures=['db(r) == nanos.scaled(32)']),
            ff('nanos', ret='r', ensures=['r.b() == db(*self)']),
            ff('nanos_rounded', ret='r', ensures=['r as int == fdiv(db(*self), ONE)']),
            ff('secs', ret='r',
               requires=['-0x8000_0000_0000_0000 * SEC <= db(*self) < 0x8000_0000_0000_0000 * SEC'],
               ensures=['r as int == fdiv(tdiv(db(*self), NS), ONE)']),
            ff('abs', ret='r', requires=['db(self) > I128_MIN'],
               ensures=['db(r) == (if db(self) < 0 { -db(self) } else { db(self) })']),
        ]),
        dict(kind='impl', file=D, header='impl From<TimeInterval> for Duration', fns=[ff('from', ret='r')]),
        dict(kind='impl', file=D, header='impl Neg for Duration', verbatim=['type Output = Duration;'], fns=[ff('neg')]),
        dict(kind='impl', file=D, header='impl Add for Duration', verbatim=['type Output = Duration;'], fns=[ff('add')]),
        dict(kind='impl', file=D, header='impl Sub for Duration', verbatim=['type Output = Duration;'], fns=[ff('sub')]),
        dict(kind='impl', file=D, header='impl<TF: ToFixed> Mul<TF> for Duration', verbatim=['type Output = Duration;'], fns=[ff('mul')]),
        dict(kind='impl', file=D, header='impl<TF: ToFixed> Div<TF> for Duration', verbatim=['type Output = Duration;'], fns=[ff('div')]),
        dict(kind='impl', file=TI, header='impl From<Duration> for TimeInterval',
             fns=[ff('from', ret='r', body_renames=[(r'fixed::types::I48F16', 'I48F16')])]),
    ],
    lemmas=open(__file__.replace('time.py', 'time_lemmas.rs')).read(),
)
