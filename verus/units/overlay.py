# Unit "overlay" (C18): OverlayClock over an arbitrary underlying clock.
# Time/Duration operators come with their *verified* contracts from unit "time" (same items, same specs).
import importlib.util, os
_t = importlib.util.spec_from_file_location('unit_time', os.path.join(os.path.dirname(__file__), 'time.py'))
_time = importlib.util.module_from_spec(_t); _t.loader.exec_module(_time)

O = 'statime/src/overlay_clock.rs'

PRELUDE = _time.PRELUDE + r'''
// ---- the underlying clock: any clock whose reading lies in the PTP range [0, 2^48 s) ("a realistic clock") ----
pub trait Clock: Sized {
    type Error: core::fmt::Debug;
    fn now(&self) -> (t: Time)
        ensures tb(t) < T48;
}

// f64 is uninterpreted: ppm is seen only through f64_scaled(ppm, 32) (= ppm * 2^32 rounded as `fixed` rounds)
pub open spec fn ppm_ok(ppm: f64) -> bool {
    f64_is_finite(ppm) && -1_000_000 * ONE < f64_scaled(ppm, 32) < 1_000_000 * ONE
}

pub closed spec fn ov_last_sync<C: Clock>(o: OverlayClock<C>) -> int { tb(o.last_sync) }
pub closed spec fn ov_shift<C: Clock>(o: OverlayClock<C>) -> int { db(o.shift) }
pub closed spec fn ov_ppm<C: Clock>(o: OverlayClock<C>) -> f64 { o.freq_scale_ppm_diff }

/// rate correction accumulated since the last re-anchoring, exactly as `fixed` computes it:
///   elapsed * ppm  (fixed multiplication, floor)   then   / 1_000_000 (fixed division, truncation)
pub open spec fn spec_corr(elapsed: int, ppm: f64) -> int {
    tdiv(fdiv(elapsed * f64_scaled(ppm, 32), ONE) * ONE, 1_000_000 * ONE)
}
/// the overlay's reading (bits) when the underlying clock reads r:  r + shift + (r - last_sync) * ppm / 10^6
pub open spec fn ov_read<C: Clock>(o: OverlayClock<C>, r: int) -> int {
    r + ov_shift(o) + spec_corr(r - ov_last_sync(o), ov_ppm(o))
}
/// representation invariant: anchor in the PTP range, |ppm| < 10^6
pub open spec fn ov_inv<C: Clock>(o: OverlayClock<C>) -> bool {
    ov_last_sync(o) < T48 && ppm_ok(ov_ppm(o))
}
/// the reading is representable and non-negative for the underlying time r (no silent wrap)
pub open spec fn ov_readable<C: Clock>(o: OverlayClock<C>, r: int) -> bool {
    0 <= r + ov_shift(o) && 0 <= ov_read(o, r) && ov_read(o, r) < 0x1000_0000_0000_0000_0000_0000_0000
}
'''

def ff(name, **kw):
    d = dict(name=name); d.update(kw); return d

time_items = [it for it in _time.UNIT['items']]

UNIT = dict(
    name='overlay',
    shims=['fixed.rs'],
    renames=_time.UNIT['renames'] + [(r'crate::config::TimePropertiesDS', 'TimePropertiesDS')],
    prelude=PRELUDE + "\npub struct TimePropertiesDS { pub dummy: u8 }\n" + r'''
impl AddAssignSpecImpl<Duration> for Duration {
    open spec fn obeys_add_assign_spec() -> bool { true }
    open spec fn add_assign_req(self, rhs: Duration) -> bool { I128_MIN <= db(self) + db(rhs) <= I128_MAX }
    open spec fn add_assign_spec(self, rhs: Duration) -> Duration { mk_dur(db(self) + db(rhs)) }
}
''',
    trusted=['f64 arithmetic is uninterpreted: `1_000_000f64 + ppm`, `1_000_000f64 / m` have unspecified results; f64 -> fixed is the uninterpreted f64_scaled',
             'underlying clock reads within [0, 2^48 s) (Clock::now ensures)'],
    items=time_items + [
        dict(kind='impl', file='statime/src/time/duration.rs', header='impl AddAssign for Duration', fns=[ff('add_assign')]),
        dict(kind='struct', file=O, name='OverlayClock'),
        dict(kind='impl', file=O, header='impl<C: Clock> OverlayClock<C>', fns=[
            ff('time_from_underlying', ret='t',
               requires=['ov_inv(*self)', 'tb(roclock_time) < T48',
                         # the reading and the fixed-point intermediates (elapsed * ppm) are representable
                         'ov_call_ok(*self, tb(roclock_time))'],
               ensures=['tb(t) == ov_read(*self, tb(roclock_time))',
                        # restated so that callers have the representability facts of this instant at hand
                        'ov_call_ok(*self, tb(roclock_time))']),
        ]),
        # the Clock impl is moved to an inherent impl so that contracts can be attached (rule 4)
        dict(kind='impl', file=O, header='impl<C: Clock> Clock for OverlayClock<C>', **{'as': 'impl<C: Clock> OverlayClock<C>'}, fns=[
            ff('set_frequency', ret='res', sig_renames=[(r'Self::Error', 'C::Error')],
               requires=['ov_inv(*old(self))', 'ppm_ok(ppm)',
                         # the current reading is representable at every underlying time in range
                         'forall|r: int| 0 <= r < T48 ==> #[trigger] ov_call_ok(*old(self), r)'],
               ensures=[
                   'res.is_ok()',
                   # continuity: there is an underlying instant r at which the reading before == reading after == returned time
                   # continuity at r := the underlying instant of the call = the new anchor:
                   # reading before == reading after == returned time
                   'ov_last_sync(*final(self)) < T48',
                   'ov_read(*old(self), ov_last_sync(*final(self))) == tb(res.unwrap())',
                   'ov_read(*final(self), ov_last_sync(*final(self))) == tb(res.unwrap())',
                   'ov_ppm(*final(self)) == ppm',
               ]),
            ff('step_clock', ret='res', sig_renames=[(r'Self::Error', 'C::Error')],
               requires=['ov_inv(*old(self))',
                         '-0x1_0000_0000_0000_0000_0000_0000 < db(offset) < 0x1_0000_0000_0000_0000_0000_0000',
                         'forall|r: int| 0 <= r < T48 ==> #[trigger] ov_call_ok(*old(self), r) && 0 <= ov_read(*old(self), r) + db(offset) < 0x1000_0000_0000_0000_0000_0000_0000',
                         ],
               ensures=[
                   'res.is_ok()',
                   # at the underlying instant r of the call the reading jumps by exactly `offset`, and the returned time is the new reading
                   # r := the underlying instant of the call = the new anchor
                   'ov_last_sync(*final(self)) < T48',
                   'ov_read(*final(self), ov_last_sync(*final(self))) == ov_read(*old(self), ov_last_sync(*final(self))) + db(offset)',
                   'tb(res.unwrap()) == ov_read(*final(self), ov_last_sync(*final(self)))',
                   'ov_ppm(*final(self)) == ov_ppm(*old(self))',
               ]),
        ]),
    ],
    lemmas=r'''
pub open spec fn ov_call_ok<C: Clock>(o: OverlayClock<C>, r: int) -> bool { ov_readable(o, r) && ov_mul_ok(o, r) }
pub open spec fn ov_mul_ok<C: Clock>(o: OverlayClock<C>, r: int) -> bool {
    I128_MIN <= fdiv((r - ov_last_sync(o)) * f64_scaled(ov_ppm(o), 32), ONE) <= I128_MAX
    && I128_MIN <= fdiv((r - ov_last_sync(o)) * f64_scaled(ov_ppm(o), 32), ONE) * ONE <= I128_MAX
}
''',
)
