# Unit "framing" (C04): Message::deserialize / wire_size -- declared length, body, TLV suffix.
# Header and body codecs are abstract here: their contracts are *assumed* in this unit and *proved*
# by the Kani units "header" and "bodies" (cross-tool assume/guarantee, DESIGN 2.4).
import importlib.util, os
_t = importlib.util.spec_from_file_location('unit_tlv', os.path.join(os.path.dirname(__file__), 'tlv.py'))
_tlv = importlib.util.module_from_spec(_t); _t.loader.exec_module(_tlv)

M = 'statime/src/datastructures/messages/mod.rs'
T = 'statime/src/datastructures/common/tlv.rs'
DS = 'statime/src/datastructures/mod.rs'

PRELUDE = _tlv.PRELUDE + r'''
// ---- abstract header / body layer (assumed contracts; guaranteed by Kani units header / bodies) ----
#[derive(Clone, Copy, Debug, PartialEq, Eq)]
pub struct Header { pub abstract_id: u64 }
#[derive(Clone, Copy, Debug, PartialEq, Eq)]
pub enum MessageType { Sync, DelayReq, PDelayReq, PDelayResp, FollowUp, DelayResp, PDelayRespFollowUp, Announce, Signaling, Management }
#[derive(Clone, Copy, Debug, PartialEq, Eq)]
pub struct DeserializedHeader { pub header: Header, pub message_type: MessageType, pub message_length: u16 }
#[derive(Clone, Copy, Debug, PartialEq, Eq)]
pub struct MessageBody { pub abstract_id: u64, pub kind: MessageType }

// Clause 13: body sizes (13.5 - 13.12; signaling 13.12 targetPortIdentity, management 15.4.1 first 14 octets)
pub open spec fn spec_body_size(t: MessageType) -> int {
    match t {
        MessageType::Sync => 10, MessageType::DelayReq => 10, MessageType::FollowUp => 10,
        MessageType::PDelayReq => 20, MessageType::PDelayResp => 20, MessageType::DelayResp => 20,
        MessageType::PDelayRespFollowUp => 20, MessageType::Announce => 30,
        MessageType::Signaling => 10, MessageType::Management => 14,
    }
}
pub uninterp spec fn spec_decode_header(s: Seq<u8>) -> Option<DeserializedHeader>;
pub uninterp spec fn spec_decode_body(t: MessageType, h: Header, s: Seq<u8>) -> Option<MessageBody>;

impl Header {
    /// assumed; proved by Kani harnesses c04_header_decode_matches_spec / c04_header_decode_short_is_error:
    /// fails below 34 octets, depends only on the first 34 octets, messageLength is octets 2..3 big endian
    #[verifier::external_body]
    pub fn deserialize_header(buffer: &[u8]) -> (r: Result<DeserializedHeader, WireFormatError>)
        ensures
            r.is_ok() == spec_decode_header(buffer@).is_some(),
            r.is_ok() ==> r.unwrap() == spec_decode_header(buffer@).unwrap(),
            r.is_ok() ==> buffer@.len() >= 34 && r.unwrap().message_length as int == be16(buffer@, 2),
            buffer@.len() >= 34 ==> spec_decode_header(buffer@) == spec_decode_header(buffer@.subrange(0, 34)),
            buffer@.len() < 34 ==> r.is_err(),
    { unimplemented!() }
}
impl MessageBody {
    /// assumed; proved by the Kani c04_body_* harnesses: total, fails when shorter than the body size of the
    /// type, depends only on the first spec_body_size(type) octets, yields a body of the requested type
    #[verifier::external_body]
    pub fn deserialize(message_type: MessageType, header: &Header, buffer: &[u8]) -> (r: Result<MessageBody, WireFormatError>)
        ensures
            r.is_ok() == spec_decode_body(message_type, *header, buffer@).is_some(),
            r.is_ok() ==> r.unwrap() == spec_decode_body(message_type, *header, buffer@).unwrap(),
            r.is_ok() ==> r.unwrap().kind == message_type && buffer@.len() >= spec_body_size(message_type),
            buffer@.len() >= spec_body_size(message_type) ==>
                spec_decode_body(message_type, *header, buffer@)
                    == spec_decode_body(message_type, *header, buffer@.subrange(0, spec_body_size(message_type))),
            buffer@.len() < spec_body_size(message_type) ==> r.is_err(),
    { unimplemented!() }

    #[verifier::external_body]
    pub fn wire_size(&self) -> (r: usize)
        ensures r == spec_body_size(self.kind)
    { unimplemented!() }
}

// ---- the property-level specification of parsing: it only ever looks at s[0 .. declared length) ----
pub struct MsgView { pub header: Header, pub body: MessageBody, pub suffix: Seq<u8> }

pub open spec fn spec_parse(s: Seq<u8>) -> Option<MsgView> {
    match spec_decode_header(s) {
        None => None,
        Some(h) => {
            let len = h.message_length as int;
            if len < 34 || s.len() < len { None } else {
                let content = s.subrange(34, len);
                match spec_decode_body(h.message_type, h.header, content) {
                    None => None,
                    Some(b) => {
                        let tlvs = content.subrange(spec_body_size(h.message_type), content.len() as int);
                        if tlv_chain(tlvs) { Some(MsgView { header: h.header, body: b, suffix: tlvs }) } else { None }
                    }
                }
            }
        }
    }
}

pub closed spec fn view_of(m: Message) -> MsgView { MsgView { header: m.header, body: m.body, suffix: set_bytes(m.suffix) } }
'''

def ff(name, **kw):
    d = dict(name=name); d.update(kw); return d

tlv_items = [it for it in _tlv.UNIT['items']]

UNIT = dict(
    name='framing',
    shims=['core.rs'],
    renames=_tlv.UNIT['renames'] + [(r'super::WireFormatError', 'WireFormatError')],
    prelude=PRELUDE,
    trusted=_tlv.UNIT['trusted'] + [
        'Header::deserialize_header, MessageBody::deserialize, MessageBody::wire_size are external_body here with assumed contracts (total; prefix-only dependence; sizes) that the Kani units header/bodies of C04 prove on the real functions',
    ],
    items=tlv_items + [
        dict(kind='impl', file='statime/src/datastructures/messages/header.rs', header='impl Header',
             fns=[ff('wire_size', ret='r', ensures=['r == 34'])]),
        dict(kind='struct', file=M, name='Message', renames=[(r'#\[derive\([^)]*\)\]', '')]),
        dict(kind='impl', file=M, header="impl<'a> Message<'a>", fns=[
            ff('wire_size', ret='r',
               requires=['set_bytes(self.suffix).len() % 2 == 0', 'set_bytes(self.suffix).len() <= 0xffff'],
               ensures=['r == 34 + spec_body_size(self.body.kind) + set_bytes(self.suffix).len()']),
            ff('deserialize', ret='r',
               requires=['buffer@.len() <= usize::MAX'],
               ensures=[
                   # exactly the specification, which by construction never looks past the declared length
                   'r.is_ok() == spec_parse(buffer@).is_some()',
                   'r.is_ok() ==> view_of(r.unwrap()) == spec_parse(buffer@).unwrap()',
                   # the decoded message has exactly the declared length
                   'r.is_ok() ==> 34 <= be16(buffer@, 2) <= buffer@.len()',
                   'r.is_ok() ==> 34 + spec_body_size(r.unwrap().body.kind) + set_bytes(r.unwrap().suffix).len() == be16(buffer@, 2)',
                   'r.is_ok() ==> tlv_chain(set_bytes(r.unwrap().suffix)) && set_bytes(r.unwrap().suffix).len() % 2 == 0',
               ]),
        ]),
    ],
    lemmas=_tlv.UNIT['lemmas'] + r'''
// "never reads past the length declared in its header": parsing a buffer equals parsing its first
// messageLength octets -- whatever follows (padding, another frame, garbage) cannot influence the result.
proof fn c04_parse_ignores_bytes_past_declared_length(s: Seq<u8>)
    requires s.len() >= 34, 34 <= be16(s, 2) <= s.len(),
             // assumed codec facts (same as the external_body contracts above)
             spec_decode_header(s) == spec_decode_header(s.subrange(0, 34)),
             spec_decode_header(s.subrange(0, be16(s, 2))) == spec_decode_header(s.subrange(0, be16(s, 2)).subrange(0, 34)),
             spec_decode_header(s).is_some() ==> spec_decode_header(s).unwrap().message_length as int == be16(s, 2),
    ensures spec_parse(s) == spec_parse(s.subrange(0, be16(s, 2))),
{
    let l = be16(s, 2);
    let p = s.subrange(0, l);
    assert(p.subrange(0, 34) =~= s.subrange(0, 34));
    assert(spec_decode_header(p) == spec_decode_header(s));
    if spec_decode_header(s).is_some() {
        assert(p.subrange(34, l) =~= s.subrange(34, l));
    }
}

// decode exec-level composition: a message accepted by the parser can be drained without panic and has
// the declared size (C03 + C04)
fn c04_decode_then_size(buffer: &[u8]) -> (r: usize)
    requires buffer@.len() <= usize::MAX,
    ensures r == 0 || r as int == be16(buffer@, 2),
{
    match Message::deserialize(buffer) {
        Ok(m) => { m.wire_size() }
        Err(_) => 0,
    }
}
''',
)
