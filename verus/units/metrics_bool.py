# Unit "metrics_bool" (C19, clause "true as 1"): the body of the exporter's `format_bool!` macro,
# extracted verbatim and expanded in a wrapper whose contract is the Prometheus boolean convention.
F = 'statime-linux/src/metrics/format.rs'
UNIT = dict(
    name='metrics_bool',
    shims=[],
    prelude='',
    items=[dict(kind='macro', file=F, name='format_bool')],
    lemmas=r'''
// every boolean metric goes through this macro (time_traceable, frequency_traceable, ptp_timescale, path_trace enable)
fn c19_bool_metric_value(v: bool) -> (r: u8)
    ensures r == (if v { 1u8 } else { 0u8 }),
{
    format_bool!(v)
}
''',
)
