# Unit "tlv" (C04, C03, C15): TLV set validation and iteration, unbounded buffers, by loop invariant.
T = 'statime/src/datastructures/common/tlv.rs'
DS = 'statime/src/datastructures/mod.rs'

PRELUDE = r'''
// A TLV set as the iterator needs it (IEEE 1588-2019 14.1: tlvType(2) lengthField(2) valueField(L), L even):
// empty, or a TLV that fits followed by a TLV set.  More than 4 octets are required for a TLV to be
// *followed* by nothing, i.e. a trailing zero-length TLV is not part of a valid set (both the validator
// and the iterator of the library agree on this; the spec is written from the iterator's needs).
pub open spec fn tlv_chain(s: Seq<u8>) -> bool
    decreases s.len()
{
    if s.len() == 0 { true }
    else if s.len() <= 4 { false }
    else {
        let l = be16(s, 2);
        l % 2 == 0 && 4 + l <= s.len() && tlv_chain(s.subrange(4 + l, s.len() as int))
    }
}

// IEEE 1588-2019 Table 52 (tlvType values), written from the standard
pub open spec fn spec_tlv_code(t: TlvType) -> u16 {
    match t {
        TlvType::Reserved(v) => v,
        TlvType::Management => 0x0001,
        TlvType::ManagementErrorStatus => 0x0002,
        TlvType::OrganizationExtension => 0x0003,
        TlvType::RequestUnicastTransmission => 0x0004,
        TlvType::GrantUnicastTransmission => 0x0005,
        TlvType::CancelUnicastTransmission => 0x0006,
        TlvType::AcknowledgeCancelUnicastTransmission => 0x0007,
        TlvType::PathTrace => 0x0008,
        TlvType::AlternateTimeOffsetIndicator => 0x0009,
        TlvType::Legacy(v) => v,
        TlvType::Experimental(v) => v,
        TlvType::OrganizationExtensionPropagate => 0x4000,
        TlvType::EnhancedAccuracyMetrics => 0x4001,
        TlvType::OrganizationExtensionDoNotPropagate => 0x8000,
        TlvType::L1Sync => 0x8001,
        TlvType::PortCommunicationAvailability => 0x8002,
        TlvType::ProtocolAddress => 0x8003,
        TlvType::SlaveRxSyncTimingData => 0x8004,
        TlvType::SlaveRxSyncComputedData => 0x8005,
        TlvType::SlaveTxEventTimestamps => 0x8006,
        TlvType::CumulativeRateRatio => 0x8007,
        TlvType::Pad => 0x8008,
        TlvType::Authentication => 0x8009,
    }
}
// 14.2.2.2 / 16.2: TLVs a boundary clock propagates on Announce
pub open spec fn spec_propagate(code: u16) -> bool { code == 0x0008 || code == 0x0009 || (0x4000 <= code <= 0x7fff) }

pub closed spec fn set_bytes(t: TlvSet) -> Seq<u8> { t.bytes@ }
pub closed spec fn iter_bytes(t: TlvSetIterator) -> Seq<u8> { t.buffer@ }
'''

def ff(name, **kw):
    d = dict(name=name); d.update(kw); return d

UNIT = dict(
    name='tlv',
    shims=['core.rs'],
    renames=[
        # std configuration wraps the borrowed value in Cow::Borrowed; the no_std field type is verified
        (r'value: value\.into\(\),', 'value: value,'),
        (r'self\.value\.as_ref\(\)', 'self.value'),
    ],
    prelude=PRELUDE,
    trusted=['Tlv.value is verified in its no_std form (&[u8]); under feature "std" the same slice is wrapped in Cow::Borrowed'],
    items=[
        dict(kind='enum', file=DS, name='WireFormatError'),
        dict(kind='enum', file=T, name='TlvType'),
        dict(kind='impl', file=T, header='impl TlvType', fns=[
            ff('to_primitive', ret='r', ensures=['r == spec_tlv_code(self)']),
            ff('from_primitive', ret='r', ensures=['spec_tlv_code(r) == value']),
            ff('announce_propagate', ret='r', ensures=['r == spec_propagate(spec_tlv_code(self))']),
        ]),
        dict(kind='struct', file=T, name='TlvSet'),
        dict(kind='struct', file=T, name='TlvSetIterator'),
        dict(kind='struct', file=T, name='Tlv', renames=[(r'#\[cfg\(not\(feature = "std"\)\)\]', ''), (r'#\[cfg\(feature = "std"\)\]\s*pub value: std::borrow::Cow<\'a, \[u8\]>,', '')]),
        dict(kind='impl', file=T, header="impl<'a> Tlv<'a>", fns=[
            ff('wire_size', ret='r', requires=['self.value@.len() <= 0xffff'], ensures=['r == 4 + self.value@.len()']),
            ff('deserialize', ret='r',
               ensures=[
                   'buffer@.len() >= 4 && buffer@.len() >= 4 + be16(buffer@, 2) <==> r.is_ok()',
                   'r.is_ok() ==> r.unwrap().value@ =~= buffer@.subrange(4, 4 + be16(buffer@, 2))',
                   'r.is_ok() ==> spec_tlv_code(r.unwrap().tlv_type) as int == be16(buffer@, 0)',
               ]),
        ]),
        dict(kind='impl', file=T, header="impl<'a> TlvSet<'a>", fns=[
            ff('wire_size', ret='r', requires=['set_bytes(*self).len() % 2 == 0'], ensures=['r == set_bytes(*self).len()']),
            ff('deserialize', ret='r',
               attrs=['#[verifier::loop_isolation(false)]'],
               # type invariant of slices (Verus does not know it for a spec-level length)
               requires=['buffer@.len() <= usize::MAX'],
               ensures=[
                   'r.is_ok() ==> buffer@.len() % 2 == 0',
                   # total: returns Ok exactly on valid TLV sets, and then holds exactly the input bytes
                   'r.is_ok() <==> tlv_chain(buffer@)',
                   'r.is_ok() ==> set_bytes(r.unwrap()) =~= buffer@',
               ],
               loops={1: dict(
                   invariant=[
                       'total_length + buffer@.len() == original@.len()',
                       'total_length % 2 == 0',
                       'tlv_chain(original@) <==> tlv_chain(buffer@)',
                   ],
                   decreases='buffer@.len()')}),
            ff('tlv', ret='r', ensures=['iter_bytes(r) == set_bytes(*self)']),
        ]),
        dict(kind='impl', file=T, header="impl<'a> Iterator for TlvSetIterator<'a>", **{'as': "impl<'a> TlvSetIterator<'a>"}, fns=[
            ff('next', ret='r', sig_renames=[(r'Option<Self::Item>', "Option<Tlv<'a>>")],
               requires=['tlv_chain(iter_bytes(*old(self)))'],
               ensures=[
                   'tlv_chain(iter_bytes(*final(self)))',
                   'r.is_none() ==> iter_bytes(*old(self)).len() == 0 && iter_bytes(*final(self)).len() == 0',
                   'r.is_some() ==> iter_bytes(*old(self)).len() > 4',
                   'r.is_some() ==> r.unwrap().value@ =~= iter_bytes(*old(self)).subrange(4, 4 + be16(iter_bytes(*old(self)), 2))',
                   'r.is_some() ==> spec_tlv_code(r.unwrap().tlv_type) as int == be16(iter_bytes(*old(self)), 0)',
                   'r.is_some() ==> iter_bytes(*final(self)) =~= iter_bytes(*old(self)).subrange(4 + be16(iter_bytes(*old(self)), 2), iter_bytes(*old(self)).len() as int)',
                   # progress: the iterator terminates (each step consumes at least 4 octets)
                   'r.is_some() ==> iter_bytes(*final(self)).len() + 4 <= iter_bytes(*old(self)).len()',
               ]),
        ]),
    ],
    lemmas=r'''
// C04/C15: every element the iterator yields lies inside the validated set; C03: draining any validated
// set never panics (the `unwrap` and the debug assertion in `next` are obligations of `next` itself).
fn c04_drain(set: TlvSet) -> (n: usize)
    requires tlv_chain(set_bytes(set)), set_bytes(set).len() <= usize::MAX,
{
    let mut it = set.tlv();
    let mut n: usize = 0;
    loop
        invariant tlv_chain(iter_bytes(it)), n + iter_bytes(it).len() <= set_bytes(set).len(), set_bytes(set).len() <= usize::MAX,
        decreases iter_bytes(it).len(),
    {
        match it.next() {
            None => { return n; }
            Some(_t) => { n = n + 1; }
        }
    }
}
''',
)
