// C16 property statements as compositions of the *contracted real functions*: each exec function
// below only type-checks against the callee contracts (modular), so a callee whose body no longer
// meets its contract fails there, and a contract too weak for the property fails here.

// (1) time -> wire timestamp + sub-ns correction -> time reproduces it to 2^-16 ns, over all of [0, 2^48 s)
fn c16_wire_round_trip(t: Time) -> (r: Time)
    requires tb(t) < T48,
    ensures tb(r) == tb(t) - tb(t) % 0x1_0000,
            tb(t) - tb(r) < 0x1_0000,
{
    let w = WireTimestamp::from(t);
    proof {
        assert(w.seconds as int == tb(t) / SEC);
        assert(w.nanos as int == (tb(t) % SEC) / ONE);
        lemma_split(tb(t));
    }
    let back = Time::from(w);
    let sub = t.subnano();
    let d = Duration::from(sub);
    back + d
}

proof fn lemma_split(b: int)
    requires 0 <= b,
    ensures ((b / SEC) * NS + (b % SEC) / ONE) * ONE + ((b % ONE) / 0x1_0000) * 0x1_0000 == b - b % 0x1_0000,
            0 <= (b / SEC) * NS + (b % SEC) / ONE,
            ((b / SEC) * NS + (b % SEC) / ONE) * ONE <= b,
{
    // b = q*SEC + r, r = n*ONE + f, f = s*2^16 + g
    let q = b / SEC; let r = b % SEC;
    let n = r / ONE; let f = r % ONE;
    assert(b == q * SEC + r) by { vstd::arithmetic::div_mod::lemma_fundamental_div_mod(b, SEC); }
    assert(r == n * ONE + f) by { vstd::arithmetic::div_mod::lemma_fundamental_div_mod(r, ONE); }
    assert(0 <= r < SEC) by { vstd::arithmetic::div_mod::lemma_mod_bound(b, SEC); }
    assert(0 <= f < ONE) by { vstd::arithmetic::div_mod::lemma_mod_bound(r, ONE); }
    assert(SEC == NS * ONE);
    assert(q * SEC == (q * NS) * ONE) by (nonlinear_arith) requires SEC == NS * ONE;
    assert((q * NS + n) * ONE == (q * NS) * ONE + n * ONE) by (nonlinear_arith);
    // b % ONE == f because SEC is a multiple of ONE
    assert(b == (q * NS + n) * ONE + f);
    assert(b % ONE == f) by {
        vstd::arithmetic::div_mod::lemma_fundamental_div_mod_converse(b, ONE, q * NS + n, f);
    }
    let s = f / 0x1_0000; let g = f % 0x1_0000;
    assert(f == s * 0x1_0000 + g) by { vstd::arithmetic::div_mod::lemma_fundamental_div_mod(f, 0x1_0000); }
    assert(0 <= g < 0x1_0000) by { vstd::arithmetic::div_mod::lemma_mod_bound(f, 0x1_0000); }
    assert(b % 0x1_0000 == g) by {
        assert(ONE == 0x1_0000 * 0x1_0000);
        assert((q * NS + n) * ONE == ((q * NS + n) * 0x1_0000) * 0x1_0000) by (nonlinear_arith) requires ONE == 0x1_0000 * 0x1_0000;
        assert(b == ((q * NS + n) * 0x1_0000 + s) * 0x1_0000 + g) by (nonlinear_arith)
            requires b == (q * NS + n) * ONE + f, f == s * 0x1_0000 + g,
                     (q * NS + n) * ONE == ((q * NS + n) * 0x1_0000) * 0x1_0000;
        vstd::arithmetic::div_mod::lemma_fundamental_div_mod_converse(b, 0x1_0000, (q * NS + n) * 0x1_0000 + s, g);
    }
    assert(q >= 0 && n >= 0);
    assert(q * NS >= 0) by (nonlinear_arith) requires q >= 0;
}

// (2) t + d - d == t, exact, whenever the intermediate is representable (no silent wrap: the
//     requires is exactly the representability of the mathematical result)
fn c16_add_then_sub(t: Time, d: Duration) -> (r: Time)
    requires 0 <= tb(t) + db(d) <= U128_MAX, db(d) > I128_MIN,
    ensures r == t,
{
    (t + d) - d
}

// (3) difference of two times is exact over the whole PTP range and adding it back is the identity
fn c16_diff_then_add(a: Time, b: Time) -> (r: Time)
    requires tb(a) < T48, tb(b) < T48,
    ensures r == a,
{
    let d = a - b;
    assert(db(d) == tb(a) - tb(b));
    b + d
}

// (4) every wire time interval converts to a duration and back unchanged (all 2^64 bit patterns)
fn c16_interval_round_trip(i: TimeInterval) -> (r: TimeInterval)
    ensures r == i,
{
    let d = Duration::from(i);
    proof { lemma_shr16_of_shl16(i.0.bits); }
    TimeInterval::from(d)
}

proof fn lemma_shr16_of_shl16(x: i64)
    ensures (((x as int * 0x1_0000) as i128) >> 16u32) as i64 == x,
{
    let y: i128 = (x as int * 0x1_0000) as i128;
    let xx: i128 = x as i128;
    assert(y == xx * 0x1_0000);
    assert((y >> 16u32) == xx) by (bit_vector)
        requires y == xx * 0x1_0000i128, -0x8000_0000_0000_0000i128 <= xx, xx <= 0x7fff_ffff_ffff_ffffi128;
}

// (5) duration -> time interval rounds toward minus infinity to 2^-16 ns (within the i64 range)
fn c16_duration_to_interval_floor(d: Duration) -> (r: TimeInterval)
    requires I64_MIN * 0x1_0000 <= db(d) < (I64_MAX + 1) * 0x1_0000,
    ensures ib(r) == fdiv(db(d), 0x1_0000),
            ib(r) * 0x1_0000 <= db(d) < (ib(r) + 1) * 0x1_0000,
{
    proof { lemma_shr16_is_floor(d.inner.bits); }
    TimeInterval::from(d)
}

proof fn lemma_shr16_is_floor(x: i128)
    requires I64_MIN * 0x1_0000 <= x < (I64_MAX + 1) * 0x1_0000,
    ensures ((x >> 16u32) as i64) as int == fdiv(x as int, 0x1_0000),
            fdiv(x as int, 0x1_0000) * 0x1_0000 <= x < (fdiv(x as int, 0x1_0000) + 1) * 0x1_0000,
{
    let q = x >> 16u32;
    assert(q * 0x1_0000i128 <= x && x < q * 0x1_0000i128 + 0x1_0000i128 && -0x8000_0000_0000_0000i128 <= q && q <= 0x7fff_ffff_ffff_ffffi128) by (bit_vector)
        requires q == x >> 16u32, -0x8000_0000_0000_0000i128 * 0x1_0000i128 <= x, x < 0x8000_0000_0000_0000i128 * 0x1_0000i128;
    if x >= 0 {
        vstd::arithmetic::div_mod::lemma_fundamental_div_mod_converse(x as int, 0x1_0000, q as int, (x - q * 0x1_0000) as int);
    } else {
        // fdiv(x, m) = -((-x + m - 1) / m)
        let m = 0x1_0000int;
        let a = -(x as int) + m - 1;
        // a = (-q) * m + (q*m + m - 1 - x) ... with remainder in [0, m)
        let rem = (q as int) * m + m - 1 - (x as int);
        assert(0 <= rem < m);
        assert(a == (-(q as int)) * m + rem) by (nonlinear_arith) requires a == -(x as int) + m - 1, rem == (q as int) * m + m - 1 - (x as int);
        vstd::arithmetic::div_mod::lemma_fundamental_div_mod_converse(a, m, -(q as int), rem);
    }
}

// (6) wire timestamps produced from a time in the PTP range are well-formed (48-bit seconds, ns < 10^9)
fn c16_wire_well_formed(t: Time) -> (w: WireTimestamp)
    requires tb(t) < T48,
    ensures w.seconds < 0x1_0000_0000_0000, w.nanos < 1_000_000_000,
{
    WireTimestamp::from(t)
}
