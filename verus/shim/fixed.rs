// ---------------------------------------------------------------------------------------------
// SHIM: assumed contracts for the `fixed` / `az` crates (trusted base, reported in evidence).
// Each fixed-point type is viewed as its two's-complement bit pattern `bits`; the represented
// value is bits / 2^FRAC.  Every function below is `external_body`: its `requires` is "the
// mathematical result is representable" (the real crate panics or wraps otherwise) and its
// `ensures` is the exact integer formula on the bit pattern.
// ---------------------------------------------------------------------------------------------

pub open spec fn p2(n: nat) -> int {
    if n == 0 { 1 } else if n == 16 { 0x1_0000 } else if n == 32 { 0x1_0000_0000 } else { arbitrary() }
}

pub open spec const U128_MAX: int = 0xffff_ffff_ffff_ffff_ffff_ffff_ffff_ffff;
pub open spec const I128_MAX: int = 0x7fff_ffff_ffff_ffff_ffff_ffff_ffff_ffff;
pub open spec const I128_MIN: int = -0x8000_0000_0000_0000_0000_0000_0000_0000;
pub open spec const I64_MAX: int = 0x7fff_ffff_ffff_ffff;
pub open spec const I64_MIN: int = -0x8000_0000_0000_0000;

/// floor division on mathematical integers (d > 0)
pub open spec fn fdiv(a: int, d: int) -> int
    recommends d > 0
{
    if a >= 0 { a / d } else { -((-a + d - 1) / d) }
}

/// truncating division (sign of the dividend), as `fixed`'s `/` on the underlying integers
pub open spec fn tdiv(a: int, b: int) -> int
    recommends b != 0
{
    if a >= 0 && b > 0 { a / b }
    else if a < 0 && b > 0 { -((-a) / b) }
    else if a >= 0 && b < 0 { -(a / (-b)) }
    else { (-a) / (-b) }
}

pub open spec fn spec_round(bits: int, one: int) -> int {
    if bits >= 0 { fdiv(bits + one / 2, one) * one } else { -(fdiv(-bits + one / 2, one) * one) }
}

pub trait Fixed: Sized {
    spec fn fb() -> nat;      // number of fractional bits
    spec fn lo() -> int;      // smallest bit pattern (as int)
    spec fn hi() -> int;      // largest bit pattern
    spec fn b(self) -> int;   // bit pattern as a mathematical integer
}

#[derive(Clone, Copy, Debug, PartialEq, Eq)]
pub struct U96F32 { pub bits: u128 }
#[derive(Clone, Copy, Debug, PartialEq, Eq)]
pub struct I96F32 { pub bits: i128 }
#[derive(Clone, Copy, Debug, PartialEq, Eq)]
pub struct I48F16 { pub bits: i64 }
#[derive(Clone, Copy, Debug, PartialEq, Eq)]
pub struct U112F16 { pub bits: u128 }

impl Fixed for U96F32 {
    open spec fn fb() -> nat { 32 }
    open spec fn lo() -> int { 0 }
    open spec fn hi() -> int { U128_MAX }
    open spec fn b(self) -> int { self.bits as int }
}
impl Fixed for I96F32 {
    open spec fn fb() -> nat { 32 }
    open spec fn lo() -> int { I128_MIN }
    open spec fn hi() -> int { I128_MAX }
    open spec fn b(self) -> int { self.bits as int }
}
impl Fixed for I48F16 {
    open spec fn fb() -> nat { 16 }
    open spec fn lo() -> int { I64_MIN }
    open spec fn hi() -> int { I64_MAX }
    open spec fn b(self) -> int { self.bits as int }
}
impl Fixed for U112F16 {
    open spec fn fb() -> nat { 16 }
    open spec fn lo() -> int { 0 }
    open spec fn hi() -> int { U128_MAX }
    open spec fn b(self) -> int { self.bits as int }
}

// ---- ToFixed ---------------------------------------------------------------------------------
// scaled(n) = the value multiplied by 2^n, rounded as `fixed` rounds when converting
// (integers and wider fixed types: exact; narrower: floor; floats: uninterpreted).
pub uninterp spec fn f64_scaled(x: f64, n: nat) -> int;
pub uninterp spec fn f64_is_finite(x: f64) -> bool;

pub trait ToFixed: Sized {
    spec fn convertible(self) -> bool;
    spec fn scaled(self, n: nat) -> int;
    fn to_fixed<F: Fixed>(self) -> (r: F)
        requires
            self.convertible(),
            F::lo() <= self.scaled(F::fb()) <= F::hi(),
        ensures
            r.b() == self.scaled(F::fb()),
    ;
}

macro_rules! int_to_fixed {
    ($($t:ty),*) => { verus! { $(
        impl ToFixed for $t {
            open spec fn convertible(self) -> bool { true }
            open spec fn scaled(self, n: nat) -> int { (self as int) * p2(n) }
            #[verifier::external_body]
            fn to_fixed<F: Fixed>(self) -> (r: F) { unimplemented!() }
        }
    )* } }
}
int_to_fixed!(u8, u16, u32, u64, u128, i8, i16, i32, i64, i128);

impl ToFixed for f64 {
    open spec fn convertible(self) -> bool { f64_is_finite(self) }
    open spec fn scaled(self, n: nat) -> int { f64_scaled(self, n) }
    #[verifier::external_body]
    fn to_fixed<F: Fixed>(self) -> (r: F) { unimplemented!() }
}

pub open spec fn rescale(bits: int, from: nat, to: nat) -> int {
    if to == from { bits } else if to > from { bits * p2((to - from) as nat) } else { fdiv(bits, p2((from - to) as nat)) }
}

macro_rules! fixed_to_fixed {
    ($($t:ty),*) => { verus! { $(
        impl ToFixed for $t {
            open spec fn convertible(self) -> bool { true }
            open spec fn scaled(self, n: nat) -> int { rescale(self.b(), <$t as Fixed>::fb(), n) }
            #[verifier::external_body]
            fn to_fixed<F: Fixed>(self) -> (r: F) { unimplemented!() }
        }
    )* } }
}
fixed_to_fixed!(U96F32, I96F32, I48F16, U112F16);

// ---- FromFixed (to_num) ----------------------------------------------------------------------
pub trait FromFixed: Sized {
    spec fn nlo() -> int;
    spec fn nhi() -> int;
    spec fn is_int() -> bool;
    spec fn n(self) -> int;
}
macro_rules! int_from_fixed {
    ($($t:ty),*) => { verus! { $(
        impl FromFixed for $t {
            open spec fn nlo() -> int { <$t>::MIN as int }
            open spec fn nhi() -> int { <$t>::MAX as int }
            open spec fn is_int() -> bool { true }
            open spec fn n(self) -> int { self as int }
        }
    )* } }
}
int_from_fixed!(u8, u16, u32, u64, u128, i8, i16, i32, i64, i128);

// ---- methods ---------------------------------------------------------------------------------
macro_rules! fixed_common {
    ($t:ident, $inner:ty) => { verus! {
        impl $t {
            #[verifier::external_body]
            pub const fn from_bits(bits: $inner) -> (r: Self)
                ensures r.bits == bits
            { unimplemented!() }

            #[verifier::external_body]
            pub const fn to_bits(self) -> (r: $inner)
                ensures r == self.bits
            { unimplemented!() }

            /// `to_num::<N>()` for integer N: floor of the value; panics (debug) / wraps on overflow
            #[verifier::external_body]
            pub fn to_num<N: FromFixed>(self) -> (r: N)
                requires
                    N::is_int(),
                    N::nlo() <= fdiv(self.b(), p2(Self::fb())) <= N::nhi(),
                ensures
                    r.n() == fdiv(self.b(), p2(Self::fb())),
            { unimplemented!() }

            /// `saturating_to_num::<N>()`: floor of the value clamped to N's range
            #[verifier::external_body]
            pub fn saturating_to_num<N: FromFixed>(self) -> (r: N)
                requires N::is_int()
                ensures
                    r.n() == (if fdiv(self.b(), p2(Self::fb())) < N::nlo() { N::nlo() }
                              else if fdiv(self.b(), p2(Self::fb())) > N::nhi() { N::nhi() }
                              else { fdiv(self.b(), p2(Self::fb())) }),
            { unimplemented!() }

            /// round toward -inf to an integer value
            #[verifier::external_body]
            pub fn floor(self) -> (r: Self)
                ensures r.b() == fdiv(self.b(), p2(Self::fb())) * p2(Self::fb()),
            { unimplemented!() }

            /// round to the nearest integer value, ties away from zero; overflow panics (debug) / wraps
            #[verifier::external_body]
            pub fn round(self) -> (r: Self)
                requires Self::lo() <= spec_round(self.b(), p2(Self::fb())) <= Self::hi(),
                ensures r.b() == spec_round(self.b(), p2(Self::fb())),
            { unimplemented!() }

            /// round toward +inf to an integer value
            #[verifier::external_body]
            pub fn ceil(self) -> (r: Self)
                requires -fdiv(-self.b(), p2(Self::fb())) * p2(Self::fb()) <= Self::hi(),
                ensures r.b() == -fdiv(-self.b(), p2(Self::fb())) * p2(Self::fb()),
            { unimplemented!() }

            /// fractional part (value - floor(value)), same type
            #[verifier::external_body]
            pub fn frac(self) -> (r: Self)
                ensures r.b() == self.b() - fdiv(self.b(), p2(Self::fb())) * p2(Self::fb()),
                        0 <= r.b() < p2(Self::fb()),
            { unimplemented!() }
        }

        impl AddSpecImpl<$t> for $t {
            open spec fn obeys_add_spec() -> bool { true }
            open spec fn add_req(self, rhs: $t) -> bool { <$t as Fixed>::lo() <= self.b() + rhs.b() <= <$t as Fixed>::hi() }
            open spec fn add_spec(self, rhs: $t) -> $t { $t { bits: (self.bits + rhs.bits) as $inner } }
        }
        impl core::ops::Add<$t> for $t {
            type Output = $t;
            #[verifier::external_body]
            fn add(self, rhs: $t) -> $t { unimplemented!() }
        }
        impl SubSpecImpl<$t> for $t {
            open spec fn obeys_sub_spec() -> bool { true }
            open spec fn sub_req(self, rhs: $t) -> bool { <$t as Fixed>::lo() <= self.b() - rhs.b() <= <$t as Fixed>::hi() }
            open spec fn sub_spec(self, rhs: $t) -> $t { $t { bits: (self.bits - rhs.bits) as $inner } }
        }
        impl core::ops::Sub<$t> for $t {
            type Output = $t;
            #[verifier::external_body]
            fn sub(self, rhs: $t) -> $t { unimplemented!() }
        }
        // a * b on fixed: (a.bits * b.bits) >> FRAC, rounding toward -inf (fixed uses floor for mul)
        impl MulSpecImpl<$t> for $t {
            open spec fn obeys_mul_spec() -> bool { true }
            open spec fn mul_req(self, rhs: $t) -> bool {
                <$t as Fixed>::lo() <= fdiv(self.b() * rhs.b(), p2(<$t as Fixed>::fb())) <= <$t as Fixed>::hi()
            }
            open spec fn mul_spec(self, rhs: $t) -> $t {
                $t { bits: fdiv(self.b() * rhs.b(), p2(<$t as Fixed>::fb())) as $inner }
            }
        }
        impl core::ops::Mul<$t> for $t {
            type Output = $t;
            #[verifier::external_body]
            fn mul(self, rhs: $t) -> $t { unimplemented!() }
        }
        // a / b on fixed: (a.bits << FRAC) / b.bits, truncating toward zero; panics on b == 0
        impl DivSpecImpl<$t> for $t {
            open spec fn obeys_div_spec() -> bool { true }
            open spec fn div_req(self, rhs: $t) -> bool {
                rhs.b() != 0 &&
                <$t as Fixed>::lo() <= tdiv(self.b() * p2(<$t as Fixed>::fb()), rhs.b()) <= <$t as Fixed>::hi()
            }
            open spec fn div_spec(self, rhs: $t) -> $t {
                $t { bits: tdiv(self.b() * p2(<$t as Fixed>::fb()), rhs.b()) as $inner }
            }
        }
        impl core::ops::Div<$t> for $t {
            type Output = $t;
            #[verifier::external_body]
            fn div(self, rhs: $t) -> $t { unimplemented!() }
        }
        // a % b on fixed: remainder of the bit patterns, sign of the dividend
        impl RemSpecImpl<$t> for $t {
            open spec fn obeys_rem_spec() -> bool { true }
            open spec fn rem_req(self, rhs: $t) -> bool { rhs.b() != 0 }
            open spec fn rem_spec(self, rhs: $t) -> $t {
                $t { bits: (self.b() - tdiv(self.b(), rhs.b()) * rhs.b()) as $inner }
            }
        }
        impl core::ops::Rem<$t> for $t {
            type Output = $t;
            #[verifier::external_body]
            fn rem(self, rhs: $t) -> $t { unimplemented!() }
        }
    } }
}
fixed_common!(U96F32, u128);
fixed_common!(I96F32, i128);
fixed_common!(I48F16, i64);
fixed_common!(U112F16, u128);

impl I96F32 {
    pub const ZERO: I96F32 = I96F32 { bits: 0 };

    #[verifier::external_body]
    pub fn is_negative(self) -> (r: bool)
        ensures r == (self.bits < 0)
    { unimplemented!() }

    /// |x| as the unsigned type of the same width; total (|MIN| fits u128)
    #[verifier::external_body]
    pub fn unsigned_abs(self) -> (r: U96F32)
        ensures r.b() == (if self.bits < 0 { -(self.bits as int) } else { self.bits as int })
    { unimplemented!() }

    /// |x|; overflows (panic in debug, wrap in release) for MIN
    #[verifier::external_body]
    pub fn abs(self) -> (r: I96F32)
        requires self.bits > i128::MIN
        ensures r.b() == (if self.bits < 0 { -(self.bits as int) } else { self.bits as int })
    { unimplemented!() }
}
impl U96F32 {
    pub const ZERO: U96F32 = U96F32 { bits: 0 };
}
impl I48F16 {
    pub const ZERO: I48F16 = I48F16 { bits: 0 };
}

impl NegSpecImpl for I96F32 {
    open spec fn obeys_neg_spec() -> bool { true }
    open spec fn neg_req(self) -> bool { self.bits > i128::MIN }
    open spec fn neg_spec(self) -> I96F32 { I96F32 { bits: (-(self.bits as int)) as i128 } }
}
impl core::ops::Neg for I96F32 {
    type Output = I96F32;
    #[verifier::external_body]
    fn neg(self) -> I96F32 { unimplemented!() }
}

// ---- LossyInto / LosslessTryInto / az::Az / az::Cast ------------------------------------------
pub trait LossyInto<Dst>: Sized {
    spec fn lossy_spec(self, r: Dst) -> bool;
    fn lossy_into(self) -> (r: Dst)
        ensures self.lossy_spec(r);
}
impl LossyInto<U112F16> for U96F32 {
    // widening integer part, dropping the low 16 fraction bits (truncation)
    open spec fn lossy_spec(self, r: U112F16) -> bool { r.b() == self.b() / 0x1_0000 }
    #[verifier::external_body]
    fn lossy_into(self) -> (r: U112F16) { unimplemented!() }
}
impl LossyInto<i128> for I96F32 {
    // integer part, rounding toward -inf
    open spec fn lossy_spec(self, r: i128) -> bool { r as int == fdiv(self.b(), 0x1_0000_0000) }
    #[verifier::external_body]
    fn lossy_into(self) -> (r: i128) { unimplemented!() }
}
pub uninterp spec fn i96f32_to_f64(bits: int) -> f64;
impl LossyInto<f64> for I96F32 {
    open spec fn lossy_spec(self, r: f64) -> bool { r == i96f32_to_f64(self.b()) }
    #[verifier::external_body]
    fn lossy_into(self) -> (r: f64) { unimplemented!() }
}

pub trait LosslessTryInto<Dst>: Sized {
    spec fn lossless_spec(self, r: Option<Dst>) -> bool;
    fn lossless_try_into(self) -> (r: Option<Dst>)
        ensures self.lossless_spec(r);
}
impl LosslessTryInto<I48F16> for U112F16 {
    // same number of fraction bits: succeeds iff the bit pattern fits i64
    open spec fn lossless_spec(self, r: Option<I48F16>) -> bool {
        if self.b() <= I64_MAX { r.is_some() && r.unwrap().b() == self.b() } else { r.is_none() }
    }
    #[verifier::external_body]
    fn lossless_try_into(self) -> (r: Option<I48F16>) { unimplemented!() }
}
