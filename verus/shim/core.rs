// ---------------------------------------------------------------------------------------------
// SHIM: std/core primitives Verus cannot attach a specification to directly (assumed, std semantics)
// ---------------------------------------------------------------------------------------------
#[verifier::external_body]
pub fn u16_from_be_bytes(b: [u8; 2]) -> (r: u16)
    ensures r as int == b[0] as int * 256 + b[1] as int
{ u16::from_be_bytes(b) }

#[verifier::external_body]
pub fn u16_to_be_bytes(x: u16) -> (r: [u8; 2])
    ensures r[0] as int == x as int / 256, r[1] as int == x as int % 256
{ x.to_be_bytes() }

pub open spec fn be16(s: Seq<u8>, o: int) -> int { s[o] as int * 256 + s[o + 1] as int }
