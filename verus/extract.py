#!/usr/bin/env python3
"""Engine V: mechanical extractor  /repo sources  ->  one Verus file per unit.

Bodies and signatures are copied verbatim from the current /repo working tree; only the
table-driven rules listed in RULES (printed into every evidence file) are applied.
A lost anchor or unsupported construct raises Undecided (exit 2), never a violation.
"""
import re, os, sys, json, importlib.util

REPO = os.environ.get("VERIF_REPO", "/repo")
HERE = os.path.dirname(os.path.abspath(__file__))


class Undecided(Exception):
    pass


# --------------------------------------------------------------------------- rules (reported)
RULES = [
    "drop: doc comments (/// //! /** */), plain comments",
    "reduce: #[derive(..)] to its subset of {Clone+Copy, Debug, PartialEq, Eq}; drop: attributes #[cfg_attr(..)], #[inline..], #[must_use..], #[allow(..)], #[doc..], #[default], #[non_exhaustive], #[repr(..)] on extracted items",
    "drop: statements that are exactly a log::<level>!(...); macro call",
    "rewrite: assert!/debug_assert!(c, ..) -> Verus obligation assert(c); (debug_)assert_eq!/ne!(a, b) -> assert((a) ==/!= (b)): runtime assertions become proof obligations in every build profile",
    "rename: uN::from_be_bytes( -> uN_from_be_bytes(  (shim with assumed big-endian semantics)",
    "rename: <expr>.to_be_bytes() -> shim to_be_bytes_uN(<expr>) where the unit lists it",
    "rewrite: contracted method of `impl Trait for T` (non-operator, non-From) moved to inherent `impl T`",
    "rewrite: unit-declared 1:1 textual renames (listed per unit in evidence)",
    "splice: named return binding, requires/ensures between signature and body; invariant/decreases after the header of the n-th loop (by ordinal)",
]


# --------------------------------------------------------------------------- tokenizer helpers
def _skip_string(s, i):
    """s[i] == '"' (possibly after b / r#). return index after the closing quote."""
    n = len(s)
    j = i + 1
    while j < n:
        c = s[j]
        if c == '\\':
            j += 2
            continue
        if c == '"':
            return j + 1
        j += 1
    raise Undecided("unterminated string literal")


def _skip_raw_string(s, i):
    # s[i] == 'r', followed by #* and "
    j = i + 1
    hashes = 0
    while s[j] == '#':
        hashes += 1
        j += 1
    assert s[j] == '"'
    end = s.find('"' + '#' * hashes, j + 1)
    if end < 0:
        raise Undecided("unterminated raw string")
    return end + 1 + hashes


def strip_comments(s):
    """remove // and /* */ comments (incl. doc comments), keep strings/chars intact."""
    out = []
    i, n = 0, len(s)
    while i < n:
        c = s[i]
        if c == '/' and i + 1 < n and s[i + 1] == '/':
            j = s.find('\n', i)
            if j < 0:
                j = n
            i = j
            continue
        if c == '/' and i + 1 < n and s[i + 1] == '*':
            depth, j = 1, i + 2
            while j < n and depth:
                if s.startswith('/*', j):
                    depth += 1; j += 2
                elif s.startswith('*/', j):
                    depth -= 1; j += 2
                else:
                    j += 1
            i = j
            out.append(' ')
            continue
        if c == '"':
            j = _skip_string(s, i)
            out.append(s[i:j]); i = j
            continue
        if c == 'r' and i + 1 < n and s[i + 1] in '#"' and (i == 0 or not (s[i - 1].isalnum() or s[i - 1] == '_')):
            k = i + 1
            while k < n and s[k] == '#':
                k += 1
            if k < n and s[k] == '"':
                j = _skip_raw_string(s, i)
                out.append(s[i:j]); i = j
                continue
        if c == "'":
            # char literal or lifetime
            m = re.match(r"'(\\.[^']*|[^'\\])'", s[i:])
            if m:
                out.append(m.group(0)); i += len(m.group(0))
                continue
        out.append(c)
        i += 1
    return ''.join(out)


def match_brace(s, i, open_c='{', close_c='}'):
    """s[i] == open_c; return index of the matching close (strings/chars aware; comments must
    have been stripped)."""
    assert s[i] == open_c, (s[i - 20:i + 20])
    depth, n = 0, len(s)
    j = i
    while j < n:
        c = s[j]
        if c == '"':
            j = _skip_string(s, j)
            continue
        if c == "'":
            m = re.match(r"'(\\.[^']*|[^'\\])'", s[j:])
            if m:
                j += len(m.group(0))
                continue
        if c == open_c:
            depth += 1
        elif c == close_c:
            depth -= 1
            if depth == 0:
                return j
        j += 1
    raise Undecided("unbalanced " + open_c)


_src_cache = {}


def load(relpath):
    p = os.path.join(REPO, relpath)
    if p not in _src_cache:
        if not os.path.exists(p):
            raise Undecided(f"lost anchor: file {relpath} not found")
        s = strip_comments(open(p).read())
        s = remove_cfg_test(s)
        _src_cache[p] = s
    return _src_cache[p]


def remove_cfg_test(s):
    """drop `#[cfg(test)] mod x { .. }` and other #[cfg(test)] items."""
    while True:
        m = re.search(r'#\[cfg\(test\)\]\s*', s)
        if not m:
            return s
        j = m.end()
        # skip further attributes
        while s[j] == '#':
            k = match_brace(s, s.index('[', j), '[', ']')
            j = k + 1
            while s[j].isspace():
                j += 1
        # item: ends at ';' or matching '}' whichever first at depth 0
        k = j
        while s[k] not in '{;':
            k += 1
        if s[k] == '{':
            k = match_brace(s, k)
        s = s[:m.start()] + s[k + 1:]


ATTR_DROP = re.compile(r'#\[(derive|cfg_attr|inline|must_use|allow|doc|default|non_exhaustive|repr|cfg\(feature = "serde"\))')


def drop_attrs(text):
    """remove droppable attributes anywhere in text."""
    out, i = [], 0
    while True:
        m = ATTR_DROP.search(text, i)
        if not m:
            out.append(text[i:])
            break
        out.append(text[i:m.start()])
        k = match_brace(text, text.index('[', m.start()), '[', ']')
        attr = text[m.start():k + 1]
        if attr.startswith('#[derive'):
            keepd = [d for d in ('Clone', 'Copy', 'Debug', 'PartialEq', 'Eq') if re.search(r'\b' + d + r'\b', attr)]
            if 'Clone' in keepd and 'Copy' not in keepd:
                keepd.remove('Clone')
            if keepd:
                out.append('#[derive(' + ', '.join(keepd) + ')]')
        i = k + 1
    return ''.join(out)


def attrs_before(src, start):
    """extend `start` backwards over contiguous #[...] attributes."""
    i = start
    while True:
        j = i
        while j > 0 and src[j - 1].isspace():
            j -= 1
        if j > 0 and src[j - 1] == ']':
            # find matching '[' backwards
            depth, k = 0, j - 1
            while k >= 0:
                if src[k] == ']':
                    depth += 1
                elif src[k] == '[':
                    depth -= 1
                    if depth == 0:
                        break
                k -= 1
            if k > 0 and src[k - 1] == '#':
                i = k - 1
                continue
        return i


def find_top_item(src, kind, name):
    """struct/enum/const/type/macro_rules/fn at any nesting; returns text."""
    text, = _find_top_item(src, kind, name),
    return text


def _find_top_item(src, kind, name):
    if kind in ('struct', 'enum'):
        m = re.search(r'(pub(\([a-z]+\))?\s+)?' + kind + r'\s+' + re.escape(name) + r'\b[^;{(]*([;{(])', src)
        if not m:
            raise Undecided(f"lost anchor: {kind} {name}")
        st = attrs_before(src, m.start())
        if m.group(3) == ';':
            return src[st:m.end()]
        if m.group(3) == '(':
            k = match_brace(src, m.end() - 1, '(', ')')
            e = src.index(';', k)
            return src[st:e + 1]
        k = match_brace(src, m.end() - 1)
        return src[st:k + 1]
    if kind == 'const':
        m = re.search(r'(pub(\([a-z]+\))?\s+)?const\s+' + re.escape(name) + r'\s*:[^;]*;', src)
        if not m:
            raise Undecided(f"lost anchor: const {name}")
        return m.group(0)
    if kind == 'macro':
        m = re.search(r'macro_rules!\s+' + re.escape(name) + r'\s*\{', src)
        if not m:
            raise Undecided(f"lost anchor: macro {name}")
        k = match_brace(src, m.end() - 1)
        return src[m.start():k + 1]
    raise ValueError(kind)


def find_impl(src, header, nth=0):
    """header: literal text after normalising whitespace, e.g. 'impl Add<Duration> for Time'.
    Returns (header_text, body_text_without_braces)."""
    pat = r'\s+'.join(re.escape(tok) for tok in header.split())
    pat = pat.replace(r'\<', r'\s*<\s*').replace(r'\>', r'\s*>')
    hits = [m for m in re.finditer(r'(?<![A-Za-z0-9_])' + pat + r'\s*(where[^{]*)?\{', src)]
    if len(hits) <= nth:
        raise Undecided(f"lost anchor: `{header}`")
    m = hits[nth]
    k = match_brace(src, m.end() - 1)
    return src[m.start():m.end() - 1].strip(), src[m.end():k]


def find_fn(block, name, where="?"):
    """find `fn name` directly in block (an impl body or a file). returns (prefix+signature, body)
    where signature is the text up to (not including) the body's '{' and body includes braces."""
    for m in re.finditer(r'((pub(\([a-z]+\))?\s+)?(const\s+)?(unsafe\s+)?fn)\s+' + re.escape(name) + r'\s*[<(]', block):
        # signature ends at first '{' at paren depth 0 (not inside generics' where clauses w/ braces: n/a)
        i = m.end() - 1
        depth = 0
        j = i
        while True:
            c = block[j]
            if c in '([':
                depth += 1
            elif c in ')]':
                depth -= 1
            elif c == '{' and depth == 0:
                break
            elif c == ';' and depth == 0:
                j = -1
                break
            j += 1
        if j < 0:
            continue  # trait method declaration
        k = match_brace(block, j)
        return block[m.start():j].rstrip(), block[j:k + 1]
    raise Undecided(f"lost anchor: fn {name} in {where}")


LOOP_KW = re.compile(r'(?<![A-Za-z0-9_.])(while|for|loop)(?![A-Za-z0-9_])')


def loop_open_braces(body):
    """indices of the '{' opening the body of each loop in `body`, in source order."""
    res = []
    i = 0
    n = len(body)
    while i < n:
        c = body[i]
        if c == '"':
            i = _skip_string(body, i); continue
        if c == "'":
            m = re.match(r"'(\\.[^']*|[^'\\])'", body[i:])
            if m:
                i += len(m.group(0)); continue
        m = LOOP_KW.match(body, i)
        if m:
            # `for` in `impl X for Y` / HRTB does not occur inside fn bodies we extract
            j = m.end()
            depth = 0
            while j < n:
                ch = body[j]
                if ch == '"':
                    j = _skip_string(body, j); continue
                if ch in '([':
                    depth += 1
                elif ch in ')]':
                    depth -= 1
                elif ch == '{' and depth == 0:
                    break
                j += 1
            res.append(j)
            i = m.end()
            continue
        i += 1
    return res


LOG_STMT = re.compile(r'\blog::(trace|debug|info|warn|error)!\s*\(')


def drop_log_statements(body):
    out, i = [], 0
    while True:
        m = LOG_STMT.search(body, i)
        if not m:
            out.append(body[i:]); break
        k = match_brace(body, m.end() - 1, '(', ')')
        j = k + 1
        while j < len(body) and body[j].isspace():
            j += 1
        if j < len(body) and body[j] == ';':
            out.append(body[i:m.start()])
            i = j + 1
        else:
            # log macro used as an expression (e.g. match arm value): replace by unit
            out.append(body[i:m.start()] + '()')
            i = k + 1
    return ''.join(out)


ASSERT_MAC = re.compile(r'\b(debug_assert_eq|debug_assert_ne|debug_assert|assert_eq|assert_ne|assert)!\s*\(')


def split_top_commas(t):
    parts, depth, cur, i = [], 0, '', 0
    while i < len(t):
        c = t[i]
        if c == '"':
            j = _skip_string(t, i); cur += t[i:j]; i = j; continue
        if c in '([{':
            depth += 1
        elif c in ')]}':
            depth -= 1
        if c == ',' and depth == 0:
            parts.append(cur); cur = ''
        else:
            cur += c
        i += 1
    if cur.strip():
        parts.append(cur)
    return parts


def rewrite_asserts(body):
    """assert!/debug_assert!(cond, ..) -> proof obligation `assert(cond)`; *_eq!(a, b) -> assert((a) == (b)).
    (debug assertions are checked irrespective of the build profile)"""
    out, i = [], 0
    while True:
        m = ASSERT_MAC.search(body, i)
        if not m:
            out.append(body[i:]); break
        k = match_brace(body, m.end() - 1, '(', ')')
        args = split_top_commas(body[m.end():k])
        kind = m.group(1)
        # operands are evaluated in exec mode first (they may call exec functions), then compared in spec mode
        if kind.endswith('_eq'):
            rep = f"{{ let lhs__ = {args[0].strip()}; let rhs__ = {args[1].strip()}; assert(lhs__ == rhs__); }}"
        elif kind.endswith('_ne'):
            rep = f"{{ let lhs__ = {args[0].strip()}; let rhs__ = {args[1].strip()}; assert(lhs__ != rhs__); }}"
        else:
            rep = f"{{ let cond__: bool = {args[0].strip()}; assert(cond__); }}"
        out.append(body[i:m.start()] + rep)
        i = k + 1
    return ''.join(out)


BUILTIN_RENAMES = [
    (re.compile(r'\b(u16|u32|u64|i64|i16|i32|u128|i128)::from_be_bytes\('), r'\1_from_be_bytes('),
]


def apply_renames(text, extra):
    for pat, rep in BUILTIN_RENAMES:
        text = pat.sub(rep, text)
    for pat, rep in extra:
        text = re.sub(pat, rep, text)
    return text


def split_sig_ret(sig):
    """split signature into (before_arrow, ret_type, where_clause). ret_type None if absent."""
    # find the param list
    i = sig.index('(', sig.index('fn'))
    # generics may contain '(' for Fn traits; our fns don't.
    k = match_brace(sig, i, '(', ')')
    rest = sig[k + 1:]
    m = re.match(r'\s*->\s*', rest)
    where = ''
    if m:
        ret = rest[m.end():]
        w = re.search(r'\bwhere\b', ret)
        if w:
            where = ret[w.start():]
            ret = ret[:w.start()]
        return sig[:k + 1], ret.strip(), where.strip()
    w = re.search(r'\bwhere\b', rest)
    if w:
        where = rest[w.start():]
    return sig[:k + 1], None, where.strip()


def clause_block(kw, clauses):
    if not clauses:
        return ''
    return '    ' + kw + '\n' + ''.join('        ' + c.strip().rstrip(',') + ',\n' for c in clauses)


def render_fn(sig, body, spec, renames, canary=False):
    """spec: dict(ret=.., requires=[..], ensures=[..], loops={ordinal: dict(invariant=[..], decreases=..)},
    body_renames=[(pat,rep)], attrs=[...])"""
    spec = spec or {}
    body = drop_log_statements(body)
    body = rewrite_asserts(body)
    body = apply_renames(body, renames + spec.get('body_renames', []))
    sig = apply_renames(sig, renames + spec.get('sig_renames', []))
    # loops: splice from last to first so indices stay valid
    loops = spec.get('loops', {})
    if loops:
        opens = loop_open_braces(body)
        for ordinal in sorted(loops, reverse=True):
            if ordinal < 1 or ordinal > len(opens):
                raise Undecided(f"lost anchor: loop #{ordinal} (function has {len(opens)} loops)")
            pos = opens[ordinal - 1]
            l = loops[ordinal]
            ins = '\n' + clause_block('invariant', l.get('invariant', []))
            if l.get('decreases'):
                ins += '    decreases ' + l['decreases'] + ',\n'
            body = body[:pos] + ins + body[pos:]
    else:
        if loop_open_braces(body) and not spec.get('allow_uncontracted_loops'):
            raise Undecided("unsupported construct: loop without a loop contract")
    if canary:
        sig = re.sub(r'\bfn\s+([A-Za-z0-9_]+)', lambda m: 'fn canary__' + m.group(1), sig, count=1)
    head, ret, where = split_sig_ret(sig)
    out = ''.join('    ' + a + '\n' for a in spec.get('attrs', []))
    out += '    ' + head
    if ret is not None:
        out += f" -> ({spec.get('ret', 'ret')}: {ret})"
    if where:
        out += '\n    ' + where
    out += '\n'
    out += clause_block('requires', spec.get('requires', []))
    ens = list(spec.get('ensures', []))
    if canary:
        ens.append('false')
    out += clause_block('ensures', ens)
    if spec.get('decreases'):
        out += '    decreases ' + spec['decreases'] + ',\n'
    out += '    ' + body + '\n'
    return out


OPERATOR_TRAITS = ('Add', 'Sub', 'Mul', 'Div', 'Rem', 'Neg', 'From', 'AddAssign', 'SubAssign', 'MulAssign', 'DivAssign', 'RemAssign', 'PartialOrd', 'PartialEq', 'Ord')


def build_unit(unit, canary=False):
    """unit: dict with keys name, shims, prelude, items, lemmas, renames. Returns Verus text and
    a catalogue of contracted functions."""
    renames = [(p, r) for p, r in unit.get('renames', [])]
    parts = ["// GENERATED by /verif/verus/extract.py from " + REPO + " -- do not edit\n",
             "#![allow(unused_imports, unused_variables, dead_code, unused_mut, unused_parens, non_snake_case, unreachable_code)]\n",
             "use vstd::prelude::*;\nuse vstd::std_specs::ops::*;\nuse vstd::std_specs::convert::*;\nuse core::ops::{Add, Sub, Mul, Div, Rem, Neg, AddAssign, SubAssign};\n",
             unit.get('uses', ''),
             "verus! {\n"]
    for sh in unit.get('shims', []):
        parts.append(f"// ===== shim {sh} =====\n" + open(os.path.join(HERE, 'shim', sh)).read() + "\n")
    parts.append("// ===== unit prelude (spec functions written from the property statement) =====\n")
    parts.append(unit.get('prelude', '') + "\n")
    catalogue = []
    for it in unit['items']:
        kind = it['kind']
        src = load(it['file'])
        if kind in ('struct', 'enum', 'const', 'macro'):
            text = drop_attrs(find_top_item(src, kind, it['name']))
            text = apply_renames(text, renames + it.get('renames', []))
            if kind == 'macro':
                parts.append("} // verus!\n" + text + "\nverus! {\n")
            else:
                parts.append(f"// --- {it['file']}: {kind} {it['name']} (verbatim)\n" + text + "\n")
        elif kind == 'impl':
            header, block = find_impl(src, it['header'], it.get('nth', 0))
            out_header = it.get('as', header)
            trait_m = re.match(r'impl(\s*<[^>]*>)?\s+([A-Za-z0-9_:]+)(<.*>)?\s+for\s+(.*)$', header, re.S)
            if trait_m and 'as' not in it:
                tname = trait_m.group(2).split('::')[-1]
                if tname not in OPERATOR_TRAITS:
                    out_header = f"impl{trait_m.group(1) or ''} {trait_m.group(4)}"
            body_parts = []
            for extra in it.get('verbatim', []):   # e.g. "type Output = Time;"
                body_parts.append('    ' + extra + '\n')
            for fn in it['fns']:
                sig, body = find_fn(block, fn['name'], where=header)
                sig = drop_attrs(sig)
                body_parts.append(f"    // --- {it['file']}: `{header}` fn {fn['name']} (body verbatim)\n")
                body_parts.append(render_fn(sig, body, fn, renames))
                if fn.get('requires'):
                    body_parts.append("    // vacuity canary: same precondition, `ensures false` -- MUST FAIL\n")
                    body_parts.append(render_fn(sig, body, fn, renames, canary=True))
                catalogue.append(dict(file=it['file'], impl=header, fn=fn['name'],
                                      requires=len(fn.get('requires', [])), ensures=len(fn.get('ensures', [])),
                                      loops=len(fn.get('loops', {}))))
            parts.append(it.get('before', ''))
            parts.append(apply_renames(out_header, renames) + " {\n" + ''.join(body_parts) + "}\n")
        elif kind == 'fn':
            sig, body = find_fn(src, it['name'], where=it['file'])
            sig = drop_attrs(sig)
            parts.append(f"// --- {it['file']}: fn {it['name']} (body verbatim)\n")
            parts.append(render_fn(sig, body, it, renames))
            if it.get('requires'):
                parts.append("// vacuity canary: same precondition, `ensures false` -- MUST FAIL\n")
                parts.append(render_fn(sig, body, it, renames, canary=True))
            catalogue.append(dict(file=it['file'], impl='', fn=it['name'],
                                  requires=len(it.get('requires', [])), ensures=len(it.get('ensures', [])),
                                  loops=len(it.get('loops', {}))))
        elif kind == 'raw':
            parts.append(it['text'] + "\n")
        else:
            raise ValueError(kind)
    parts.append("// ===== property lemmas over the contracts =====\n")
    parts.append(unit.get('lemmas', '') + "\n")
    parts.append("} // verus!\nfn main() {}\n")
    return ''.join(parts), catalogue


def load_unit(name):
    p = os.path.join(HERE, 'units', name + '.py')
    spec = importlib.util.spec_from_file_location('unit_' + name, p)
    mod = importlib.util.module_from_spec(spec)
    spec.loader.exec_module(mod)
    return mod.UNIT


if __name__ == '__main__':
    name = sys.argv[1]
    canary = '--canary' in sys.argv
    try:
        text, cat = build_unit(load_unit(name), canary=canary)
    except Undecided as e:
        print("UNDECIDED:", e, file=sys.stderr)
        sys.exit(2)
    sys.stdout.write(text)
