// Demonstration for C14: a Pdelay exchange answered by TWO responders must not be the exchange that takes the
// port out of the faulty state. Two-step responder A answers, responder B answers the same request (port goes
// FAULTY), then A's Pdelay_Resp_Follow_Up arrives: before the fix the follow-up completed the tainted exchange,
// handed its link delay to the filter and moved the port Faulty -> Listening.
// Append to the END of statime/src/port/slave.rs; cargo test -p statime --offline --lib c14_two_responders_recovery_demo
#[cfg(test)]
mod c14_two_responders_recovery_demo {
    use super::*;
    use crate::{
        config::DelayMechanism,
        datastructures::{common::{PortIdentity, TimeInterval}, messages::{Header, Message, MessageBody, PDelayRespFollowUpMessage, PDelayRespMessage}},
        filters::{Filter, FilterUpdate},
        port::{state::SlaveState, tests::{setup_test_port_custom_filter, setup_test_state}, PortAction},
        time::Interval,
        Clock,
    };

    #[derive(Default)]
    struct RecordingFilter { measurements: usize }
    impl Filter for RecordingFilter {
        type Config = ();
        fn new(_config: Self::Config) -> Self { Default::default() }
        fn measurement<C: Clock>(&mut self, _m: Measurement, _clock: &mut C) -> FilterUpdate { self.measurements += 1; Default::default() }
        fn update<C: Clock>(&mut self, _clock: &mut C) -> FilterUpdate { Default::default() }
        fn demobilize<C: Clock>(self, _clock: &mut C) {}
        fn current_estimates(&self) -> crate::filters::FilterEstimate { crate::filters::FilterEstimate { offset_from_master: Duration::ZERO, mean_delay: Duration::ZERO } }
    }

    #[test]
    fn follow_up_of_first_responder_after_second_responder_does_not_recover() {
        let state = setup_test_state();
        let mut port = setup_test_port_custom_filter::<RecordingFilter>(&state, ());
        port.config.delay_mechanism = DelayMechanism::P2P { interval: Interval::from_log_2(1) };
        port.set_forced_port_state(PortState::Slave(SlaveState::new(Default::default())));

        let mut actions = port.send_delay_request();
        let _ = actions.next();
        let Some(PortAction::SendEvent { context, data, .. }) = actions.next() else { panic!("no request") };
        let data: std::vec::Vec<u8> = data.into();
        drop(actions);
        drop(port.handle_send_timestamp(context, Time::from_micros(50)));
        let req = Message::deserialize(&data).unwrap();
        assert!(matches!(req.body, MessageBody::PDelayReq(_)));
        let a = PortIdentity { clock_identity: Default::default(), port_number: 1 };
        let b = PortIdentity { clock_identity: Default::default(), port_number: 5 };

        // two-step responder A
        drop(port.handle_peer_delay_response(
            Header { source_port_identity: a, two_step_flag: true, correction_field: TimeInterval(1000.into()), sequence_id: req.header.sequence_id, ..Header::new(1) },
            PDelayRespMessage { request_receive_timestamp: Time::from_micros(101).into(), requesting_port_identity: req.header.source_port_identity },
            Time::from_micros(154)));
        assert!(!matches!(port.port_state, PortState::Faulty));
        // responder B answers the same request
        drop(port.handle_peer_delay_response(
            Header { source_port_identity: b, two_step_flag: true, correction_field: TimeInterval(1000.into()), sequence_id: req.header.sequence_id, ..Header::new(1) },
            PDelayRespMessage { request_receive_timestamp: Time::from_micros(101).into(), requesting_port_identity: req.header.source_port_identity },
            Time::from_micros(155)));
        assert!(matches!(port.port_state, PortState::Faulty));
        let before = port.filter.measurements;
        // A's follow-up for the request that two responders answered
        drop(port.handle_peer_delay_response_follow_up(
            Header { source_port_identity: a, correction_field: TimeInterval(2000.into()), sequence_id: req.header.sequence_id, ..Header::new(1) },
            PDelayRespFollowUpMessage { response_origin_timestamp: Time::from_micros(102).into(), requesting_port_identity: req.header.source_port_identity }));
        assert!(matches!(port.port_state, PortState::Faulty), "the port left FAULTY on an exchange answered by two responders");
        assert_eq!(port.filter.measurements, before, "a link delay from the doubly answered exchange reached the filter");
    }
}
