// Demonstrations for the C03 / C15 / C10 / C06 findings in the library (each test fails before the
// corresponding `fix:` commit and passes after it).
// Append to the END of statime/src/port/bmca.rs and run
//   cargo test -p statime --offline --lib findings_demo
#[cfg(test)]
mod findings_demo {
    use super::*;
    use crate::{
        config::ClockIdentity,
        datastructures::{
            common::{PortIdentity, Tlv, TlvSetBuilder, TlvType},
            messages::{AnnounceMessage, DelayReqMessage, Header, Message, MessageBody, PtpVersion, MAX_DATA_LEN},
        },
        port::{
            tests::{setup_test_port, setup_test_state},
            ForwardedTLV, ForwardedTLVProvider,
        },
        time::Time,
    };
    use fixed::types::I48F16;

    fn header() -> Header {
        Header {
            version: PtpVersion::new(2, 1).unwrap(),
            ..Header::new(1)
        }
    }
    fn announce_from(src: PortIdentity, steps_removed: u16) -> AnnounceMessage {
        let mut h = header();
        h.source_port_identity = src;
        AnnounceMessage {
            header: h,
            origin_timestamp: Default::default(),
            current_utc_offset: 0,
            grandmaster_priority_1: 1,
            grandmaster_clock_quality: Default::default(),
            grandmaster_priority_2: 1,
            grandmaster_identity: ClockIdentity([9; 8]),
            steps_removed,
            time_source: Default::default(),
        }
    }
    fn parent() -> PortIdentity {
        PortIdentity { clock_identity: ClockIdentity([7; 8]), port_number: 1 }
    }

    /// C03: an Announce from the current parent with stepsRemoved = 65535 must not panic (steps_removed + 1)
    #[test]
    fn announce_from_parent_with_max_steps_removed() {
        let state = setup_test_state();
        let mut port = setup_test_port(&state);
        port.set_forced_port_state(PortState::Slave(SlaveState::new(parent())));
        state.borrow_mut().parent_ds.parent_port_identity = parent();
        let a = announce_from(parent(), 65535);
        let m = Message { header: a.header, body: MessageBody::Announce(a), suffix: Default::default() };
        let mut packet = [0; MAX_DATA_LEN];
        let n = m.serialize(&mut packet).unwrap();
        let _ = port.handle_general_receive(&packet[..n]);
    }

    /// C03/C15: a PATH_TRACE TLV with more than 128 identities (fits the daemon's 2048-byte receive buffer)
    #[test]
    fn announce_with_long_path_trace() {
        let state = setup_test_state();
        state.borrow_mut().path_trace_ds.enable = true;
        let mut port = setup_test_port(&state);
        port.set_forced_port_state(PortState::Slave(SlaveState::new(parent())));
        state.borrow_mut().parent_ds.parent_port_identity = parent();
        let a = announce_from(parent(), 1);
        let m = Message { header: a.header, body: MessageBody::Announce(a), suffix: Default::default() };
        let mut packet = [0u8; 2048];
        let n = m.serialize(&mut packet).unwrap();
        assert_eq!(n, 64);
        // append PATH_TRACE with 129 identities by hand and patch messageLength
        let ids = 129usize;
        packet[64] = 0x00; packet[65] = 0x08;
        packet[66..68].copy_from_slice(&((ids * 8) as u16).to_be_bytes());
        for i in 0..ids * 8 { packet[68 + i] = 0x11; }
        let total = 64 + 4 + ids * 8;
        packet[2..4].copy_from_slice(&(total as u16).to_be_bytes());
        let _ = port.handle_general_receive(&packet[..total]);
    }

    /// C03/C10: Delay_Req whose correctionField is close to the maximum: the response correction
    /// (request correction + sub-nanosecond part of the receive time) must not overflow
    #[test]
    fn delay_req_with_huge_correction() {
        let state = setup_test_state();
        let mut port = setup_test_port(&state);
        port.set_forced_port_state(PortState::Master);
        let mut h = header();
        h.correction_field = crate::datastructures::common::TimeInterval(I48F16::from_bits(i64::MAX));
        let ts = Time::from_nanos_subnanos(1_000_000, 0x8000_0000);
        let _ = port.handle_delay_req(h, DelayReqMessage { origin_timestamp: Default::default() }, ts);
    }

    struct ExactFit { tlv: Option<ForwardedTLV<'static>>, value: std::vec::Vec<u8> }
    impl ForwardedTLVProvider for ExactFit {
        fn next_if_smaller(&mut self, max_size: usize) -> Option<ForwardedTLV<'_>> {
            // documented contract: "the next available TLV, unless it is larger than max_size"
            if self.tlv.is_some() { return None; }
            self.value = std::vec![0u8; max_size - 4];
            self.tlv = Some(ForwardedTLV {
                tlv: Tlv { tlv_type: TlvType::OrganizationExtensionPropagate, value: self.value.clone().into() },
                sender_identity: PortIdentity::default(),
            });
            self.tlv.clone()
        }
    }

    /// C03/C15: a forwarded TLV that fits the remaining room exactly (size == max_size)
    #[test]
    fn forwarded_tlv_of_exactly_the_remaining_room() {
        let state = setup_test_state();
        let mut port = setup_test_port(&state);
        port.set_forced_port_state(PortState::Master);
        let mut provider = ExactFit { tlv: None, value: std::vec![] };
        let mut actions = port.send_announce(&mut provider);
        let _ = actions.next();
        let Some(PortAction::SendGeneral { data, .. }) = actions.next() else { panic!("no announce") };
        assert_eq!(data.len(), MAX_DATA_LEN);
    }

    /// C06: a duplicated Announce (same sequenceId received twice) must not count as a second message
    #[test]
    fn duplicated_announce_does_not_qualify() {
        let state = setup_test_state();
        let mut port = setup_test_port(&state);
        let mut a = announce_from(parent(), 1);
        a.header.sequence_id = 10;
        let m = Message { header: a.header, body: MessageBody::Announce(a), suffix: Default::default() };
        let mut packet = [0; MAX_DATA_LEN];
        let n = m.serialize(&mut packet).unwrap();
        let _ = port.handle_general_receive(&packet[..n]);
        let _ = port.handle_general_receive(&packet[..n]); // the same frame again
        let mut port = port.start_bmca();
        port.calculate_best_local_announce_message();
        assert!(port.best_local_announce_message_for_state().is_none(), "qualified on a single (duplicated) Announce");
    }

    /// C15: an Announce from the parent whose path trace contains our own identity is discarded --
    /// it must not update the data sets either
    #[test]
    fn looping_announce_leaves_data_sets_alone() {
        let state = setup_test_state();
        state.borrow_mut().path_trace_ds.enable = true;
        let own = state.borrow().default_ds.clock_identity;
        let mut port = setup_test_port(&state);
        port.set_forced_port_state(PortState::Slave(SlaveState::new(parent())));
        state.borrow_mut().parent_ds.parent_port_identity = parent();
        state.borrow_mut().parent_ds.grandmaster_priority_1 = 50;
        state.borrow_mut().current_ds.steps_removed = 3;
        let a = announce_from(parent(), 7); // priority1 = 1, steps 7
        let mut tlv_buf = [0u8; 64];
        let mut b = TlvSetBuilder::new(&mut tlv_buf);
        let mut path = std::vec::Vec::new();
        path.extend_from_slice(&[5u8; 8]);
        path.extend_from_slice(&own.0);
        b.add(Tlv { tlv_type: TlvType::PathTrace, value: path.as_slice().into() }).unwrap();
        let m = Message { header: a.header, body: MessageBody::Announce(a), suffix: b.build() };
        let mut packet = [0; MAX_DATA_LEN];
        let n = m.serialize(&mut packet).unwrap();
        let mut actions = port.handle_general_receive(&packet[..n]);
        assert!(actions.next().is_none());
        drop(actions);
        assert_eq!(state.borrow().parent_ds.grandmaster_priority_1, 50);
        assert_eq!(state.borrow().current_ds.steps_removed, 3);
    }
}

// C12 finding (fixed): a port moved from Master to Passive by the BMCA (decision P1/P2 or the
// multiport rule) depends on the announce receipt timer, which a Master port does not keep armed.
// Append to the END of statime/src/port/bmca.rs; cargo test -p statime --offline --lib c12_passive_demo
#[cfg(test)]
mod c12_passive_demo {
    use super::*;
    use crate::{
        datastructures::messages::{AnnounceMessage, Header, PtpVersion},
        port::tests::{setup_test_port, setup_test_state},
    };

    #[test]
    fn master_to_passive_requests_the_receipt_timer() {
        let state = setup_test_state();
        let mut port = setup_test_port(&state);
        // the port became master through the announce receipt timeout: that timer is spent
        let _ = port.handle_announce_receipt_timer();
        assert!(port.is_master());
        let mut port = port.start_bmca();
        let foreign = AnnounceMessage {
            header: Header { version: PtpVersion::new(2, 1).unwrap(), ..Header::new(1) },
            origin_timestamp: Default::default(),
            current_utc_offset: 0,
            grandmaster_priority_1: 0,
            grandmaster_clock_quality: Default::default(),
            grandmaster_priority_2: 0,
            grandmaster_identity: Default::default(),
            steps_removed: 0,
            time_source: Default::default(),
        };
        let default_ds = state.borrow().default_ds;
        port.set_recommended_port_state(&RecommendedState::P1(foreign), &default_ds);
        assert!(matches!(port.port_state, PortState::Passive));
        let mut pending = port.lifecycle.pending_action;
        assert!(
            matches!(pending.next(), Some(PortAction::ResetAnnounceReceiptTimer { .. })),
            "a port that becomes passive must be given the announce receipt timer it now depends on"
        );
    }
}
