// Demonstration for the C03 finding: the debug assertion `!default_ds.slave_only` in
// Port::set_recommended_state (decision codes M1/M2) is reachable through the public API: a slave-only instance
// whose own data set is better than the qualified foreign master gets decision M2 from the BMCA.
// Append to the END of statime/src/ptp_instance.rs and run
//   cargo test -p statime --offline --lib c03_slave_only_demo
#[cfg(test)]
mod c03_slave_only_demo {
    use super::*;
    use crate::{
        config::{AcceptAnyMaster, ClockIdentity, ClockQuality, DelayMechanism, InstanceConfig, PortConfig, PtpMinorVersion, TimePropertiesDS, TimeSource},
        datastructures::{
            common::PortIdentity,
            messages::{AnnounceMessage, Header, Message, MessageBody, PtpVersion, MAX_DATA_LEN},
        },
        filters::BasicFilter,
        time::{Interval, Time},
        Clock,
    };

    struct NullClock;
    impl Clock for NullClock {
        type Error = ();
        fn now(&self) -> Time { Time::default() }
        fn step_clock(&mut self, _o: Duration) -> Result<Time, ()> { Ok(Time::default()) }
        fn set_frequency(&mut self, _p: f64) -> Result<Time, ()> { Ok(Time::default()) }
        fn set_properties(&mut self, _t: &TimePropertiesDS) -> Result<(), ()> { Ok(()) }
    }

    #[test]
    fn bmca_on_slave_only_instance_with_a_worse_foreign_master() {
        let instance: PtpInstance<BasicFilter> = PtpInstance::new(
            InstanceConfig {
                clock_identity: ClockIdentity::from_mac_address([1, 2, 3, 4, 5, 6]),
                priority_1: 10, // better than the foreign master below
                priority_2: 128,
                domain_number: 0,
                slave_only: true,
                sdo_id: Default::default(),
                path_trace: false,
                clock_quality: ClockQuality::default(),
            },
            TimePropertiesDS::new_arbitrary_time(false, false, TimeSource::InternalOscillator),
        );
        let port = instance.add_port(
            PortConfig {
                acceptable_master_list: AcceptAnyMaster,
                delay_mechanism: DelayMechanism::E2E { interval: Interval::from_log_2(0) },
                announce_interval: Interval::from_log_2(0),
                announce_receipt_timeout: 3,
                sync_interval: Interval::from_log_2(0),
                master_only: false,
                delay_asymmetry: Duration::ZERO,
                minor_ptp_version: PtpMinorVersion::One,
            },
            0.25,
            NullClock,
            rand::rngs::mock::StepRng::new(2, 1),
        );
        let (mut port, _) = port.end_bmca();
        // two Announces of a foreign master with priority1 = 200
        for seq in 0..2u16 {
            let mut header = Header { version: PtpVersion::new(2, 1).unwrap(), ..Header::new(1) };
            header.source_port_identity = PortIdentity { clock_identity: ClockIdentity([9; 8]), port_number: 1 };
            header.sequence_id = seq;
            let a = AnnounceMessage {
                header,
                origin_timestamp: Default::default(),
                current_utc_offset: 0,
                grandmaster_priority_1: 200,
                grandmaster_clock_quality: ClockQuality::default(),
                grandmaster_priority_2: 128,
                grandmaster_identity: ClockIdentity([9; 8]),
                steps_removed: 0,
                time_source: Default::default(),
            };
            let m = Message { header, body: MessageBody::Announce(a), suffix: Default::default() };
            let mut packet = [0; MAX_DATA_LEN];
            let n = m.serialize(&mut packet).unwrap();
            let _ = port.handle_general_receive(&packet[..n]);
        }
        let mut port = port.start_bmca();
        instance.bmca(&mut [&mut port]); // must not panic
        let (port, _) = port.end_bmca();
        assert!(!port.is_master());
    }
}
