// Demonstration for the open C03 finding F-C03-wire-time-underflow: a Sync from the selected parent whose
// correctionField exceeds the receive timestamp makes `recv_time - correction` underflow the unsigned
// fixed-point Time (panic in debug builds, silent wrap to ~2^64 ns in release builds).
// Append to the END of statime/src/port/slave.rs; cargo test -p statime --offline --lib c03_time_underflow_demo
#[cfg(test)]
mod c03_time_underflow_demo {
    use super::*;
    use crate::{
        datastructures::{common::{PortIdentity, TimeInterval}, messages::{Header, PtpVersion, SyncMessage}},
        port::{state::SlaveState, tests::{setup_test_port, setup_test_state}},
    };
    use fixed::types::I48F16;

    #[test]
    fn sync_with_correction_larger_than_receive_time() {
        let state = setup_test_state();
        let mut port = setup_test_port(&state);
        let parent = PortIdentity::default();
        port.set_forced_port_state(PortState::Slave(SlaveState::new(parent)));
        let mut header = Header { version: PtpVersion::new(2, 1).unwrap(), ..Header::new(1) };
        header.source_port_identity = parent;
        header.two_step_flag = true;
        // correction of 2 ms (legal on the wire), receive timestamp 1 ms after the epoch of the local clock
        header.correction_field = TimeInterval(I48F16::from_num(2_000_000));
        let _ = port.handle_sync(header, SyncMessage { origin_timestamp: Default::default() }, Time::from_millis(1));
    }
}
