// Demonstration for the C13 finding (fixed): the commanded frequency could exceed max_freq_offset by one ulp
// (current + (bound - current) rounds above bound), e.g. bound 400 ppm, current -376.76736994010565 ppm.
// Append to the END of statime/src/filters/kalman.rs and run
//   cargo test -p statime --offline --lib c13_servo_demo
#[cfg(test)]
mod c13_servo_demo {
    use super::*;
    use crate::Clock;

    #[derive(Default)]
    struct RecordingClock {
        last_freq: Option<f64>,
    }
    impl Clock for RecordingClock {
        type Error = core::convert::Infallible;
        fn now(&self) -> Time { Time::from_nanos(0) }
        fn step_clock(&mut self, _offset: Duration) -> Result<Time, Self::Error> { Ok(Time::from_nanos(0)) }
        fn set_frequency(&mut self, ppm: f64) -> Result<Time, Self::Error> {
            self.last_freq = Some(ppm);
            Ok(Time::from_nanos(0))
        }
        fn set_properties(&mut self, _t: &crate::config::TimePropertiesDS) -> Result<(), Self::Error> { Ok(()) }
    }

    #[test]
    fn commanded_frequency_never_exceeds_the_configured_maximum() {
        for (bound, current) in [(400.0f64, -376.76736994010565f64), (10.0, -8.877534049585192), (200.0, -120.06423192914278)] {
            let mut filter = KalmanFilter {
                config: KalmanConfiguration { max_freq_offset: bound, ..Default::default() },
                running_filter: BaseFilter(Some(InnerFilter {
                    state: Vector::new_vector([0.0, 0.0, 0.0]),
                    uncertainty: Matrix::new([[1e-17, 0.0, 0.0], [0.0, 1e-16, 0.0], [0.0, 0.0, 1e-18]]),
                    filter_time: Time::from_nanos(0),
                })),
                wander_filter: BaseFilter(None),
                wander_score: 0,
                wander: KalmanConfiguration::default().initial_wander,
                wander_measurement_error: 1.0,
                measurement_error_estimator: MeasurementErrorEstimator::default(),
                cur_frequency: Some(current),
            };
            let mut clock = RecordingClock::default();
            filter.change_frequency(1e6, &mut clock);
            let cmd = clock.last_freq.unwrap();
            assert!(cmd <= bound, "commanded {cmd} ppm exceeds the maximum frequency offset {bound} ppm");
        }
    }
}

// C13 finding (fixed): BasicFilter divided 0 by 0 when a measurement was repeated (same event time, zero offset
// and hence zero correction) and programmed a NaN frequency into the clock.
// Append to the END of statime/src/filters/basic.rs; cargo test -p statime --offline --lib c13_basic_demo
#[cfg(test)]
mod c13_basic_demo {
    use super::*;

    #[derive(Default)]
    struct RecordingClock {
        freqs: std::vec::Vec<f64>,
    }
    impl Clock for RecordingClock {
        type Error = core::convert::Infallible;
        fn now(&self) -> Time { Time::from_nanos(0) }
        fn step_clock(&mut self, _offset: Duration) -> Result<Time, Self::Error> { Ok(Time::from_nanos(0)) }
        fn set_frequency(&mut self, ppm: f64) -> Result<Time, Self::Error> {
            self.freqs.push(ppm);
            Ok(Time::from_nanos(0))
        }
        fn set_properties(&mut self, _t: &crate::config::TimePropertiesDS) -> Result<(), Self::Error> { Ok(()) }
    }

    #[test]
    fn repeated_measurement_does_not_command_nan() {
        let mut filter = BasicFilter::new(0.25);
        let mut clock = RecordingClock::default();
        let m = Measurement {
            event_time: Time::from_secs(1000),
            offset: Some(Duration::ZERO),
            ..Default::default()
        };
        filter.measurement(m, &mut clock);
        filter.measurement(m, &mut clock); // duplicated / repeated measurement
        assert!(clock.freqs.iter().all(|f| f.is_finite()), "commanded frequencies: {:?}", clock.freqs);
    }
}
