//! Demonstration for the C18 finding (fixed): `OverlayClock::step_clock` dropped the frequency correction
//! accumulated since the last re-anchoring and rescaled the requested offset by 10^6/(10^6+ppm), so the
//! reading did not jump by exactly the requested amount.
//! Copy to statime/tests/c18_step_clock_demo.rs and run `cargo test -p statime --offline --test c18_step_clock_demo`.
use std::cell::Cell;
use std::rc::Rc;

use statime::config::TimePropertiesDS;
use statime::time::{Duration, Time};
use statime::{Clock, OverlayClock};

#[derive(Clone)]
struct Mock(Rc<Cell<u64>>);
impl Clock for Mock {
    type Error = ();
    fn now(&self) -> Time {
        Time::from_nanos(self.0.get())
    }
    fn step_clock(&mut self, _o: Duration) -> Result<Time, ()> {
        unreachable!()
    }
    fn set_frequency(&mut self, _p: f64) -> Result<Time, ()> {
        unreachable!()
    }
    fn set_properties(&mut self, _t: &TimePropertiesDS) -> Result<(), ()> {
        Ok(())
    }
}

#[test]
fn step_jumps_by_exactly_the_requested_amount() {
    let under = Rc::new(Cell::new(1_000_000_000_000u64));
    let mut clock = OverlayClock::new(Mock(under.clone()));
    clock.set_frequency(100.0).unwrap();
    // 1000 s of underlying time at +100 ppm: 0.1 s of accumulated correction
    under.set(under.get() + 1_000_000_000_000);
    let before = clock.now();
    let returned = clock.step_clock(Duration::from_secs(1)).unwrap();
    let after = clock.now();
    assert_eq!(after - before, Duration::from_secs(1), "reading must jump by exactly the requested offset");
    assert_eq!(returned, after, "returned time must be the reading at that instant");
}
