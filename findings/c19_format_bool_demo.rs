// Demonstration for the C19 finding (fixed): `format_bool!` exported `true` as 0 and `false` as 1.
// Append to the END of statime-linux/src/metrics/format.rs and run
//   cargo test -p statime-linux --offline --lib c19_format_bool_demo
#[cfg(test)]
mod c19_format_bool_demo {
    use super::*;
    use statime::config::{LeapIndicator, TimeSource};

    fn value_of(text: &str, metric: &str) -> String {
        text.lines()
            .find(|l| l.starts_with(metric) && !l.starts_with('#'))
            .unwrap()
            .rsplit(' ')
            .next()
            .unwrap()
            .to_string()
    }

    #[test]
    fn booleans_are_exported_with_true_as_one() {
        // ptp_timescale = true, time_traceable = true, frequency_traceable = false
        let tp = TimePropertiesDS::new_ptp_time(None, LeapIndicator::NoLeap, true, false, TimeSource::Gnss);
        let mut s = String::new();
        format_time_properties_ds(&mut s, &tp, vec![]).unwrap();
        assert_eq!(value_of(&s, "statime_ptp_timescale"), "1");
        assert_eq!(value_of(&s, "statime_time_traceable"), "1");
        assert_eq!(value_of(&s, "statime_frequency_traceable"), "0");
    }
}
