"""Human-written texts for MANIFEST.json (kept next to props.py)."""
NOTES = ("Technique family: contract-based deductive verification of the real code. exit 0 = all obligations "
         "discharged; exit 1 = VIOLATION; exit 2 = undecided (lost anchor, unsupported construct, solver limit, "
         "vacuity guard) and is never an alarm. See DESIGN.md.")

CHECKS = {
    'C16': dict(
        engine='engine-v',
        technique='Verus deductive verification (requires/ensures on verbatim-extracted time arithmetic, exec composition lemmas)',
        design_ref='DESIGN.md section 5, C16',
        level_text=('Every Time/Duration/TimeInterval/WireTimestamp conversion and operator in /repo is extracted verbatim '
                    'and verified by Verus against an exact integer contract on the fixed-point bit pattern, for all inputs '
                    '(mathematical integers, no bound); the property clauses are exec compositions of the contracted functions '
                    '(round trip to 2^-16 ns, t+d-d, a-b+b, interval round trip, floor rounding) so callee preconditions '
                    '(no silent wrap) are checked at each call.'),
        level_note=('Trusted: Verus/Z3; assumed contracts for the fixed crate operations (verus/shim/fixed.rs, external_body); '
                    'f64->fixed conversions uninterpreted; log-interval clause decided by executing all 256 inputs (labelled enumerated).'),
    ),
    'C18': dict(
        engine='engine-v',
        technique='Verus deductive verification of the verbatim-extracted OverlayClock against an affine-map specification (continuity, exact jump, returned time = reading)',
        design_ref='DESIGN.md section 5, C18',
        level_text=('OverlayClock::{time_from_underlying, set_frequency, step_clock} extracted verbatim and verified for every underlying clock '
                    'reading in the PTP range, every shift, anchor and ppm: reading(r) = r + shift + fixed((r-last_sync)*ppm)/10^6; '
                    'set_frequency is continuous at the instant of the call and returns that reading; step_clock moves the reading by '
                    'exactly the requested offset and returns the new reading. One step is one call, so sequences follow by induction over the invariant.'),
        level_note='Trusted: Verus/Z3; fixed-crate shim contracts; f64 operations uninterpreted; underlying clock within the PTP range.',
    ),
    'C04': dict(
        engine='engine-k',
        technique='Kani/CBMC loop-free full-domain harnesses against an independent Clause-13 reader/writer; Verus loop invariant for the TLV set',
        design_ref='DESIGN.md section 5, C04',
        level_text=('Header and body codecs: decode/encode of the real functions compared field by field with an independently '
                    'written Clause 13 spec for ALL byte strings of the fixed size (loop-free, complete); decode-encode-decode identity.'),
        level_note='Trusted: Kani/CBMC; the independent spec functions in kani/src/*.rs are the oracle.',
    ),
}

_later = 'claimed in DESIGN.md; machinery not built yet in this revision (will move to checks when its harnesses land)'
NOT_APPLICABLE = {
    'C01': 'network-wide convergence/liveness over N instances, channels, timers and schedules: no per-function contract, data-structure invariant or lemma over them expresses it; the per-instance ingredients are proved under C05/C08',
    'C02': 'closed-loop convergence and steady-state error of a floating-point Kalman servo over infinite measurement histories: asymptotic, float-valued, whole-history; neither Verus nor Kani has a usable theory',
    'C20': 'process-level liveness of a tokio TCP accept loop under client misbehaviour: async socket I/O and scheduling are outside any contract reachable by Verus/Kani',
    'C03': _later, 'C05': _later, 'C06': _later, 'C07': _later, 'C08': _later, 'C09': _later, 'C10': _later,
    'C11': _later, 'C12': _later, 'C13': _later, 'C14': _later, 'C15': _later, 'C17': _later, 'C19': _later,
}
