"""Human-written texts for MANIFEST.json (kept next to props.py)."""
NOTES = ("Technique family: contract-based deductive verification of the real code. Verus runs on functions extracted "
         "verbatim from /repo on every run; Kani runs on a scratch copy of the real crate with cfg(kani) child modules. "
         "exit 0 = all obligations discharged (open known findings are printed as KNOWN-FINDING lines); exit 1 = VIOLATION; "
         "exit 2 = undecided (lost anchor, unsupported construct, solver limit, vacuity guard) and is never an alarm. "
         "Quick tier = Verus units + the Kani harnesses that finish within a few minutes; thorough = every harness. "
         "Kani parallelism: VERIF_JOBS (default 8, ~5-12 GB per port-level harness). See DESIGN.md.")

_K = 'Kani/CBMC'
_trust_k = ('Trusted: Kani MIR->goto translation, CBMC/CaDiCaL; Kani-side stand-ins for arithmetic leaves guaranteed by the Verus time unit '
            '(Duration /2, *4, WireTimestamp::from), arbitrary timer durations, recording copies of PortActionIterator::from / Message::serialize; '
            'test doubles for the public traits; port representation invariant as precondition (re-established by every handler).')

CHECKS = {
    'C03': dict(
        engine='engine-k',
        technique='Kani/CBMC harnesses per host-callable operation from arbitrary valid states (automatic panic/overflow/bounds/assert obligations) + Verus loop invariants for the parser',
        design_ref='DESIGN.md section 5 (C03) and 7',
        level_text=('Every contracted operation of the port/instance API is executed by CBMC from an arbitrary state satisfying the port invariant with arbitrary inputs; '
                    'CBMC generates and discharges the no-panic obligations (arithmetic and shift overflow irrespective of build profile, bounds, unwrap/expect, '
                    'assert!/debug_assert!/unreachable!, ArrayVec capacity) and each handler re-establishes the invariant, so panic-freedom holds after every call order by induction. '
                    'The unbounded part of frame parsing (TLV loop, declared length) is the Verus framing unit, where debug assertions are proof obligations.'),
        level_note=_trust_k + ' Not covered: Kalman matrix updates; Time +- Duration on wire values below 2^48 ns (observation in DESIGN 7).',
    ),
    'C04': dict(
        engine='engine-k + engine-v',
        technique='Kani/CBMC loop-free full-domain harnesses against an independent Clause-13 reader/writer; Verus loop invariant for the TLV set and a declared-length specification of framing',
        design_ref='DESIGN.md section 5, C04',
        level_text=('Header, every body type and every enumeration: the real decode/encode functions compared field by field with an independently written '
                    'Clause 13 spec for ALL byte strings of the fixed size (loop-free, complete), incl. decode-encode-decode identity and "writes exactly content_size bytes". '
                    'Framing and TLV set: Verus, unbounded buffer length: Message::deserialize equals a specification that by construction only looks at the first messageLength octets.'),
        level_note='Trusted: Kani/CBMC, Verus/Z3; the independent spec functions are the oracle; Verus framing assumes the header/body contracts that the Kani harnesses of the same check prove.',
    ),
    'C05': dict(
        engine='engine-k', technique='Kani/CBMC full-domain harnesses: compare = IEEE Fig. 34/35, decision = Fig. 33, application = Tables 30-33, written as independent spec functions',
        design_ref='DESIGN.md section 5, C05',
        level_text=('ComparisonDataset::compare equals an independent implementation of Figures 34/35 for every pair of data sets (antisymmetric; transitive on consistent sets); '
                    'calculate_recommended_state equals Figure 33 with the documented deviations for every own data set, Ebest, Erbest and state; '
                    'set_recommended_state equals Tables 30-33 for every prior state, decision code, slave-only/master-only/multiport setting, incl. data set updates; '
                    'the comparison data sets are built from the right fields; PtpInstance::bmca recomputes every Erbest once, hands one Ebest to every decision, applies each decision to its own port and ages every port once.'),
        level_note=_trust_k + ' The composition over the loops of PtpInstanceState::bmca is machine-checked for two ports against recording stubs of the callees; more ports: paper step (uniform loops).',
    ),
    'C06': dict(
        engine='engine-k', technique='Kani/CBMC: representation invariant of ForeignMasterList + per-operation contracts; qualification rule over all sequence-id pairs; modular call chain take_best -> reregister -> list -> record checked against recording stubs of each callee',
        design_ref='DESIGN.md section 5, C06',
        level_text=('ForeignMasterList::valid() (non-empty records, ages within 4 intervals, stepsRemoved < 255, sender != own clock, one record per sender) is preserved by '
                    'register / step_age / take_qualified / take_best; a message is handed out only from a record with >= 2 stored messages; the qualification rule equals the spec '
                    'for every (stored, new) sequence-id pair incl. wrap-around; the Erbest is re-registered with its own age and each level passes (header, message, age) unchanged to the level below, '
                    'where it becomes the newest stored message; ages grow by exactly the BMCA step. Open finding: a repeated sequence id is accepted.'),
        level_note=_trust_k + ' Bounded table generator (<= 2 records x <= 2 messages, fixed payload) for the shaped harnesses; purge of a two-message record and removal of one of two records are not discharged (CBMC memory); capacity case separate; expiry/retention over time are paper steps from the per-step contracts.',
    ),
    'C07': dict(
        engine='engine-k', technique='Kani/CBMC frame contracts: complete port+instance view unchanged and no action for every rejected frame class',
        design_ref='DESIGN.md section 5, C07',
        level_text=('For every rejected class (wrong PTP version, undecodable, foreign domain/sdoId, Announce from an unacceptable clock or with the port\'s own identity, '
                    'Sync/Follow_Up/Delay_Resp not from the selected parent or answering another requester, slave-side messages on a non-slave port, event messages on the general channel) '
                    'the handler leaves the complete view of port and instance equal to the pre-state and yields no action; two-run non-interference follows by determinism.'),
        level_note=_trust_k,
    ),
    'C08': dict(
        engine='engine-k', technique='Kani/CBMC: state guards of every emitter, role rules of the decision application, filter hand-over on leaving slave',
        design_ref='DESIGN.md section 5, C08',
        level_text=('Sync/Follow_Up/Delay_Resp/Announce are emitted only from Master, E2E Delay_Req only from Slave (frame otherwise); master-only never Slave, slave-only never Master after '
                    'any decision or receipt timeout; S1 only for the port that received Ebest; leaving Slave replaces the filter and demobilizes the old one exactly once.'),
        level_note=_trust_k + ' "At most one slave port" is the paper composition of the per-port contracts.',
    ),
    'C09': dict(
        engine='engine-k + engine-v', technique='Kani/CBMC: each slave handler equals a specification transition function pairing by sequence id; measurement arithmetic via Verus time contracts',
        design_ref='DESIGN.md section 5, C09',
        level_text=('handle_sync (one/two-step), handle_follow_up, handle_delay_timestamp, handle_delay_resp, send_e2e_delay_request: post-state == spec_step(pre-state, input) on the complete view, '
                    'and the measurement handed to the filter equals the IEEE 11.2/11.3 formula on 2^-32 ns bit patterns of exactly one exchange (same sequence id), consumed once; '
                    'induction over handler calls covers every reordering, duplication and loss.'),
        level_note=_trust_k,
    ),
    'C10': dict(
        engine='engine-k + engine-v', technique='Kani/CBMC: emitted messages equal the spec field by field; sequence generator +1 mod 2^16; Verus lemma for timestamp + correction',
        design_ref='DESIGN.md section 5, C10',
        level_text=('Sync, Follow_Up, Delay_Resp, Pdelay_Resp, Pdelay_Resp_Follow_Up: the message handed to the serializer has the type, sequence id, identities, domain, sdoId, '
                    'timestamp and correction the spec prescribes; frame length = wire size <= 1024; TimestampContext carries the id; every action list has <= 1 event send; '
                    'SequenceIdGenerator::generate for all 65536 states; Message::serialize layout (C04).'),
        level_note=_trust_k,
    ),
    'C11': dict(
        engine='engine-k', technique='Kani/CBMC: Announce contents = data sets; data-set update contracts (S1 on parent Announce, M1/M2/S1 by BMCA)',
        design_ref='DESIGN.md section 5, C11',
        level_text=('Message::announce via send_announce carries every named data-set member and flag; handle_announce from the parent sets the data sets to the Announce contents '
                    '(stepsRemoved + 1) in one write acquisition; set_recommended_state M1/M2 => own attributes and stepsRemoved 0, S1 => parent\'s.'),
        level_note=_trust_k,
    ),
    'C12': dict(
        engine='engine-k', technique='Kani/CBMC per-function timer contracts (ghost view needs(state)); temporal conclusion not machine-checked',
        design_ref='DESIGN.md section 5, C12',
        level_text=('Every operation that changes the port state requests the timers the new state depends on; every periodic sender re-arms its own timer when it emits; '
                    'every accepted Announce re-arms the receipt timer. Safety core only.'),
        level_note=_trust_k + ' The conclusion "within a bounded number of intervals ... indefinitely" is a paper argument under host obedience.',
    ),
    'C13': dict(
        engine='engine-k', technique='Kani/CBMC IEEE-754 bit-precise leaf contracts of the servo (clamp, change_frequency, steer, demobilize, BasicFilter step)',
        design_ref='DESIGN.md section 5, C13',
        level_text=('From any NaN-free estimator state and any configuration with positive finite bounds: the frequency handed to Clock::set_frequency is finite and within +-max_freq_offset; '
                    'the clock is stepped only when |offset| >= step threshold and then by -offset; demobilize issues at most one command; BasicFilter commands are finite; '
                    'KalmanFilter::measurement arms the frequency control only for a measurement carrying a sync or delay offset.'),
        level_note='Trusted: Kani/CBMC float model (bit-precise for + - * / comparisons); matrix updates stubbed; NaN-freedom over whole trajectories is an assumption.',
    ),
    'C14': dict(
        engine='engine-k + engine-v', technique='Kani/CBMC: peer-delay handlers equal a specification transition function incl. second responder -> Faulty',
        design_ref='DESIGN.md section 5, C14',
        level_text=('send_p2p_delay_request, handle_pdelay_timestamp, handle_peer_delay_response, handle_peer_delay_response_follow_up: post == spec_step(pre, input); link delay = '
                    '((t4-t1)-(t3-t2))/2 of one request and one responder; a second responder => Faulty, its timestamps not stored, the doubly answered exchange dropped (fix 0ba8a9d), filter replaced and demobilized once; '
                    'recovery only through a completed single-responder exchange. Open findings: Faulty is also left by the receipt timeout and by the multiport rule.'),
        level_note=_trust_k,
    ),
    'C15': dict(
        engine='engine-k + engine-v', technique='Kani/CBMC with an arbitrary conforming TLV provider (bounded K=2) + Verus TLV iterator contract',
        design_ref='DESIGN.md section 5, C15',
        level_text=('send_announce with any provider honouring size <= max_size: forwards only parent TLVs, drops PATH_TRACE when it adds its own, asks the provider with exactly the remaining room, '
                    'frame length = 64 + own path TLV + forwarded sizes <= 1024, never panics; path trace stored / looping Announce discarded without effect (bounded TLV).'),
        level_note=_trust_k + ' Bounded: K=2 TLVs per call, one PATH_TRACE TLV with <= 2 identities. Daemon-side forwarder is an assumed contract.',
    ),
    'C16': dict(
        engine='engine-v',
        technique='Verus deductive verification (requires/ensures on verbatim-extracted time arithmetic, exec composition lemmas)',
        design_ref='DESIGN.md section 5, C16',
        level_text=('Every Time/Duration/TimeInterval/WireTimestamp conversion and operator in /repo is extracted verbatim and verified by Verus against an exact integer contract on the fixed-point '
                    'bit pattern, for all inputs (mathematical integers, no bound); the property clauses are exec compositions of the contracted functions, so callee preconditions (no silent wrap) are checked at each call.'),
        level_note=('Trusted: Verus/Z3; assumed contracts for the fixed crate operations (external_body); f64->fixed uninterpreted; log-interval clause decided by executing all inputs (labelled enumerated).'),
    ),
    'C17': dict(
        engine='engine-k', technique='Kani/CBMC over a lock implementation that asserts acquisition depth 0 and counts acquisitions',
        design_ref='DESIGN.md section 5, C17',
        level_text=('Every port and instance operation is verified over ChkLock: no operation requests the instance-state lock while holding it, from every valid state and input; '
                    'each data-set update is a single write acquisition, each getter a single read acquisition, the BMCA application performs none.'),
        level_note=_trust_k + ' Mutual exclusion itself is std::sync::RwLock/RefCell; no thread interleaving is explored.',
    ),
    'C18': dict(
        engine='engine-v',
        technique='Verus deductive verification of the verbatim-extracted OverlayClock against an affine-map specification (continuity, exact jump, returned time = reading)',
        design_ref='DESIGN.md section 5, C18',
        level_text=('OverlayClock::{time_from_underlying, set_frequency, step_clock} extracted verbatim and verified for every underlying reading in the PTP range, every shift, anchor and ppm: '
                    'reading(r) = r + shift + fixed((r-last_sync)*ppm)/10^6; set_frequency is continuous at the instant of the call and returns that reading; step_clock moves the reading by exactly '
                    'the requested offset and returns the new reading. One step is one call, so sequences follow by induction over the invariant.'),
        level_note='Trusted: Verus/Z3; fixed-crate shim contracts; f64 operations uninterpreted; underlying clock within the PTP range.',
    ),
    'C19': dict(
        engine='engine-k + engine-v', technique='Kani/CBMC snapshot-equals-live-state contracts + Verus on the verbatim format_bool! macro',
        design_ref='DESIGN.md section 5, C19',
        level_text=('Two clauses only: (a) every data set and port data set exposed for observation equals the live value, one read acquisition per getter; (b) boolean metrics are exported as 1/0. '
                    'The JSON hop, metric name/value association, exposition syntax and Content-Length are NOT decided.'),
        level_note=_trust_k + ' String/fmt/serde reasoning is outside both verifiers.',
    ),
}

NOT_APPLICABLE = {
    'C01': 'network-wide convergence/liveness over N instances, channels, timers and schedules: no per-function contract, data-structure invariant or lemma over them expresses it; the per-instance ingredients (comparison, decision, application, roles) are proved under C05/C08',
    'C02': 'closed-loop convergence and steady-state error of a floating-point Kalman servo over infinite measurement histories: asymptotic, float-valued, whole-history; neither Verus nor Kani has a usable theory',
    'C20': 'process-level liveness of a tokio TCP accept loop under client misbehaviour: async socket I/O and scheduling are outside any contract reachable by Verus/Kani',
}
