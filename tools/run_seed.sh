#!/bin/bash
# usage: run_seed.sh <seed-name> [tier] : run the seed's property check against a scratch copy of /repo with the
# seeded change applied (VERIF_REPO), without touching /repo or /verif/evidence. Prints the verdict.
set -u
name=$1; tier=${2:-quick}
id=${name%%-*}
d=/var/tmp/seedrun/$name
rm -rf $d; mkdir -p $d/repo
rsync -a --exclude target --exclude .git /repo/ $d/repo/
patch=/verif/seeded/$name/patch.rebased.diff; [ -f $patch ] || patch=/verif/seeded/$name/patch.diff
(cd $d/repo && git init -q . 2>/dev/null && git apply $patch) || { echo "$name: patch does not apply"; exit 3; }
VERIF_NO_PLAYBACK=${VERIF_NO_PLAYBACK-1} VERIF_REPO=$d/repo VERIF_EVIDENCE_DIR=$d/evidence VERIF_SCRATCH=$d/scratch /verif/bin/check $id --tier $tier > $d/out.txt 2>&1
rc=$?
echo "$name rc=$rc $(grep -c '^VIOLATION' $d/out.txt) violation line(s): $(grep '^violated obligation' $d/out.txt | head -3 | cut -c1-200 | tr '\n' '|')"
rm -rf $d/repo $d/scratch
exit $rc
