#!/usr/bin/env python3
"""MANIFEST.setup_cmd: nothing to build (python driver; verifiers are pre-installed). Verifies the tools are present."""
import shutil, subprocess, sys
ok = True
for tool in ('verus', 'cargo', 'cargo-kani', 'rsync', 'git'):
    if not shutil.which(tool):
        print('missing tool:', tool); ok = False
print('setup ok' if ok else 'setup incomplete')
sys.exit(0 if ok else 1)
