#!/bin/bash
# usage: try_patch.sh <patch.diff> <ID> [tier] : apply a seeded change to /repo, run the check, undo it.
set -u
patch=$1; id=$2; tier=${3:-quick}
git -C /repo apply "$patch" || { echo "patch does not apply"; exit 3; }
/verif/bin/check "$id" --tier "$tier"; rc=$?
git -C /repo checkout -- .
git -C /repo status --short | grep -v '^??' && echo "WARNING: /repo not clean"
echo "check rc=$rc"
exit $rc
