#!/usr/bin/env python3
"""Generate /verif/MANIFEST.json from props.py and manifest_text.py, and validate it."""
import json, os, sys
VERIF = os.path.dirname(os.path.dirname(os.path.abspath(__file__)))
sys.path.insert(0, VERIF)
import props as P
import manifest_text as T

checks = []
for pid in sorted(P.PROPS):
    t = T.CHECKS[pid]
    checks.append(dict(
        property_id=pid,
        quick_cmd=f"bin/check {pid} --tier quick",
        thorough_cmd=f"bin/check {pid} --tier thorough",
        evidence_file=f"/verif/evidence/{pid}.json",
        replay_cmd_template=f"bin/check {pid} --replay {{path}}",
        engine=t['engine'],
        level_claimed=dict(category='proof', text=t['level_text'], design_ref=t['design_ref']),
        level_note=t['level_note'],
        technique=t['technique'],
    ))
na = [dict(property_id=k, reason=v) for k, v in sorted(T.NOT_APPLICABLE.items()) if k not in P.PROPS]
all_ids = [json.loads(l)['id'] for l in open(os.path.join(VERIF, 'properties.jsonl'))]
missing = [i for i in all_ids if i not in P.PROPS and i not in T.NOT_APPLICABLE]
assert not missing, missing
m = dict(
    version=1,
    setup_cmd="python3 tools/setup.py",
    hooks=dict(guard="kani", enable="none needed: contracts and harness modules are injected into a scratch copy of /repo's working tree at check time (cfg(kani) is set by cargo-kani itself); nothing is committed in /repo",
               baseline_off_cmd="cd /repo && cargo test --workspace --no-fail-fast --offline",
               source_commits=[], add_only=True),
    engines=[
        dict(name='engine-v', path='verus/extract.py + lib/engine_v.py', serves_properties=[p for p in sorted(P.PROPS) if P.PROPS[p].get('verus')],
             kind_free_text='Verus 0.2026.09.13 on functions extracted mechanically (verbatim bodies) from /repo on every run, contracts spliced from verus/units/*.py'),
        dict(name='engine-k', path='lib/engine_k.py + kani/src/*.rs', serves_properties=[p for p in sorted(P.PROPS) if P.PROPS[p].get('kani')],
             kind_free_text='Kani 0.68/CBMC 6.11 on a scratch copy of the real crate with cfg(kani) child modules (spec functions, generators of valid states, contract harnesses)'),
    ],
    checks=checks,
    not_applicable=na,
    notes=T.NOTES,
)
json.dump(m, open(os.path.join(VERIF, 'MANIFEST.json'), 'w'), indent=1)
try:
    import jsonschema
    jsonschema.validate(m, json.load(open('/root/.vp/MANIFEST.schema.json')))
    print('MANIFEST.json valid;', len(checks), 'checks,', len(na), 'not applicable')
except ImportError:
    print('jsonschema not available; MANIFEST.json written unvalidated')
