#!/usr/bin/env python3
"""Print the prompt handed to an independent sub-agent that seeds a property-breaking change.
Only the property record and a scratch worktree path are given to the agent."""
import json, sys
pid, wt = sys.argv[1], sys.argv[2]
n = sys.argv[3] if len(sys.argv) > 3 else "2"
rec = None
for l in open('/verif/properties.jsonl'):
    r = json.loads(l)
    if r['id'] == pid: rec = r
print(f"""You are helping test a verification framework by seeding realistic defects. You work ONLY inside the git worktree {wt} (a scratch checkout of the Rust project pendulum-project/statime, an IEEE 1588 PTP implementation; workspace members `statime` and `statime-linux`). Do not read or touch /repo or /verif. There is no network: always pass --offline to cargo (CARGO_NET_OFFLINE=true).

Here is a semantic property the project is supposed to satisfy (JSON record):

{json.dumps(rec, indent=1)}

Task: produce {n} independent, *different* source changes (each a separate patch against the pristine worktree HEAD) to the library source under {wt}/statime/src or {wt}/statime-linux/src (NOT to tests) such that each change:
 1. breaks the property above (a realistic programmer mistake or plausible refactoring slip: an off-by-one, wrong operator/sign, a dropped or weakened guard, a swapped field, a wrong constant, a stale value kept, state updated in the wrong order, ...);
 2. still compiles, and the existing test suite still passes completely: `cd {wt} && cargo test --workspace --offline` must pass with the change applied (the existing tests must NOT be edited);
 3. needs something specific to manifest - an unusual input or boundary value, a multi-step sequence of operations, a particular ordering, or two cooperating sites that each look fine alone - rather than something any ordinary use would expose at once;
 4. is small (a few lines) and touches only non-test code.
Prefer changes in different functions / mechanisms for the {n} patches, and prefer the functions named in the property's anchors.

For each change k = 1..{n} deliver, in directory {wt}/seed_out/k/ :
  - patch.diff : `git diff` output of the change against HEAD (only library source changes; apply-able with `git apply` on a pristine checkout);
  - a demonstration: a Rust test that FAILS with the change applied and PASSES on the pristine tree. Put it in a new file demo.rs together with a short README.txt saying exactly where the test goes and how to run it (e.g. "append to statime/src/port/slave.rs inside `mod tests`" or "copy to statime/tests/demo_k.rs" and the cargo test command). Tests inside the crate (a `#[cfg(test)] mod` appended to a source file) may use private items. Keep the demonstration deterministic.
  - meta.json : {{"property": "{pid}", "summary": "...what was changed...", "needs": "...what specific input/sequence/ordering is needed for it to manifest...", "files": [...], "commands_run": [...]}}
You must actually run: (a) the full existing test suite with the change applied -> passes; (b) the demonstration with the change applied -> fails; (c) the demonstration without the change -> passes. Record the commands in meta.json. When finished, leave the worktree's tracked source files pristine (`git -C {wt} checkout -- .`), leaving only the seed_out/ directory. Do not commit anything. Report a short summary of each change at the end.""")
