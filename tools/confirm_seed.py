#!/usr/bin/env python3
"""confirm_seed.py <worktree> <prop> <k> [<stored-k>]: independently confirm a seeded change produced by a sub-agent
(in its scratch worktree) and, if confirmed, store it under /verif/seeded/<prop>-<k>/.
Checks: (a) demo passes on pristine tree, (b) demo fails with patch, (c) full existing suite passes with patch."""
import sys, os, re, subprocess, json, shutil
wt, prop, k = sys.argv[1], sys.argv[2], sys.argv[3]
dstk = sys.argv[4] if len(sys.argv) > 4 else k   # name under /verif/seeded (second round: k + 2)
src = os.path.join(wt, 'seed_out', k)
readme = open(os.path.join(src, 'README.txt')).read()
demo = open(os.path.join(src, 'demo.rs')).read()
m = re.search(r'END of\s+(statime(?:-linux)?/(?:src|tests)/[A-Za-z0-9_/]+\.rs)', readme) or re.search(r'(statime(?:-linux)?/tests/[A-Za-z0-9_/]+\.rs)', readme) or re.search(r'(statime(?:-linux)?/(?:src|tests)/[A-Za-z0-9_/]+\.rs)', readme)
target = m.group(1)
_m = re.search(r'(?m)^\s*(?:pub )?mod\s+([A-Za-z0-9_]+)', demo)
mod = _m.group(1) if _m else 'integration'
pkg = 'statime-linux' if target.startswith('statime-linux') else 'statime'
env = dict(os.environ, CARGO_NET_OFFLINE='true')
def sh(cmd, **kw):
    return subprocess.run(cmd, shell=True, cwd=wt, env=env, capture_output=True, text=True, **kw)
def clean():
    sh('git checkout -- . ')
def run_demo():
    if '/tests/' in target:
        os.makedirs(os.path.dirname(os.path.join(wt, target)), exist_ok=True)
        open(os.path.join(wt, target), 'w').write(demo)
        r = sh(f'cargo test -p {pkg} --offline --test {os.path.basename(target)[:-3]} 2>&1')
    else:
        open(os.path.join(wt, target), 'a').write('\n' + demo)
        r = sh(f'cargo test -p {pkg} --offline --lib {mod} 2>&1')
    out = r.stdout
    ran = re.search(r'test result: (\w+)\. (\d+) passed; (\d+) failed', out)
    return r.returncode, out, ran
log = {}
clean()
rc, out, ran = run_demo()
log['pristine_demo'] = dict(rc=rc, result=ran.group(0) if ran else out[-400:])
ok_a = rc == 0 and ran and int(ran.group(2)) > 0
clean()
if '/tests/' in target and os.path.exists(os.path.join(wt, target)): os.remove(os.path.join(wt, target))
r = sh(f'git apply seed_out/{k}/patch.diff')
assert r.returncode == 0, r.stderr
rc, out, ran = run_demo()
log['patched_demo'] = dict(rc=rc, result=ran.group(0) if ran else out[-400:])
ok_b = rc != 0 and ('FAILED' in out or 'panicked' in out)
clean()
if '/tests/' in target and os.path.exists(os.path.join(wt, target)): os.remove(os.path.join(wt, target))
sh(f'git apply seed_out/{k}/patch.diff')
r = sh('cargo test --workspace --offline --no-fail-fast 2>&1')
res = re.findall(r'test result: (\w+)\. (\d+) passed; (\d+) failed', r.stdout)
log['patched_suite'] = dict(rc=r.returncode, results=res)
ok_c = r.returncode == 0 and all(x[0] == 'ok' for x in res) and sum(int(x[1]) for x in res) >= 76
clean()
print(json.dumps(log, indent=1))
print('confirmed' if (ok_a and ok_b and ok_c) else 'NOT CONFIRMED', ok_a, ok_b, ok_c)
if ok_a and ok_b and ok_c:
    dst = f'/verif/seeded/{prop}-{dstk}'
    os.makedirs(dst, exist_ok=True)
    for f in ('patch.diff', 'demo.rs', 'README.txt'):
        shutil.copy(os.path.join(src, f), dst)
    meta = json.load(open(os.path.join(src, 'meta.json')))
    meta['confirmed_by_verif'] = dict(
        demo_target=target, demo_module=mod,
        ran=['git apply patch.diff', f'append demo.rs to {target}; cargo test -p {pkg} --offline --lib {mod}  (pristine: pass, patched: fail)',
             'cargo test --workspace --offline --no-fail-fast (patched: all pass)'],
        results=log)
    json.dump(meta, open(os.path.join(dst, 'meta.json'), 'w'), indent=1)
