#!/usr/bin/env python3
"""confirm_rebased.py <worktree-at-current-HEAD> <seed-dir-name>: re-confirm a seed on the current (fixed) tree.
Uses patch.rebased.diff when present, else patch.diff. Records the result in meta.json['confirmed_on_fixed_tree']."""
import sys, os, re, subprocess, json
wt, name = sys.argv[1], sys.argv[2]
d = f'/verif/seeded/{name}'
meta = json.load(open(f'{d}/meta.json'))
patch = f'{d}/patch.rebased.diff' if os.path.exists(f'{d}/patch.rebased.diff') else f'{d}/patch.diff'
target = meta['confirmed_by_verif']['demo_target']; mod = meta['confirmed_by_verif']['demo_module']
pkg = 'statime-linux' if target.startswith('statime-linux') else 'statime'
demo = open(f'{d}/demo.rs').read()
env = dict(os.environ, CARGO_NET_OFFLINE='true')
def sh(c): return subprocess.run(c, shell=True, cwd=wt, env=env, capture_output=True, text=True)
def clean():
    sh('git checkout -- .')
    if '/tests/' in target and os.path.exists(os.path.join(wt, target)): os.remove(os.path.join(wt, target))
def run_demo():
    if '/tests/' in target:
        os.makedirs(os.path.dirname(os.path.join(wt, target)), exist_ok=True)
        open(os.path.join(wt, target), 'w').write(demo)
        r = sh(f'cargo test -p {pkg} --offline --test {os.path.basename(target)[:-3]} 2>&1')
    else:
        open(os.path.join(wt, target), 'a').write('\n' + demo)
        r = sh(f'cargo test -p {pkg} --offline --lib {mod} 2>&1')
    m = re.search(r'test result: (\w+)\. (\d+) passed; (\d+) failed', r.stdout)
    return r.returncode, m.group(0) if m else r.stdout[-300:]
clean()
rc_a, res_a = run_demo(); clean()
r = sh(f'git apply {patch}'); assert r.returncode == 0, r.stderr
rc_b, res_b = run_demo(); clean()
sh(f'git apply {patch}')
r = sh('cargo test --workspace --offline --no-fail-fast 2>&1')
res = re.findall(r'test result: (\w+)\. (\d+) passed; (\d+) failed', r.stdout)
ok_c = r.returncode == 0 and all(x[0] == 'ok' for x in res)
clean()
ok = rc_a == 0 and rc_b != 0 and ok_c
meta['confirmed_on_fixed_tree'] = dict(head=subprocess.run(['git','-C',wt,'rev-parse','--short','HEAD'],capture_output=True,text=True).stdout.strip(),
    patch=os.path.basename(patch), demo_on_head=res_a, demo_with_patch=res_b, suite_with_patch_ok=ok_c, confirmed=ok)
json.dump(meta, open(f'{d}/meta.json', 'w'), indent=1)
print(name, 'CONFIRMED' if ok else 'NOT CONFIRMED', res_a, '|', res_b, '|', ok_c)
