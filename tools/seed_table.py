#!/usr/bin/env python3
"""Run every seeded change against its property's check (scratch copies of /repo, never /repo itself) and write
the result table into DESIGN.md (between the SEED_TABLE markers) and seeded/RESULTS.json.
usage: seed_table.py [tier] [parallel] [names...]"""
import subprocess, sys, os, json, re, concurrent.futures as cf
tier = sys.argv[1] if len(sys.argv) > 1 else 'quick'
par = int(sys.argv[2]) if len(sys.argv) > 2 else 2
names = sys.argv[3:] or sorted(d for d in os.listdir('/verif/seeded') if os.path.isdir(f'/verif/seeded/{d}'))
env = dict(os.environ, VERIF_JOBS=os.environ.get('VERIF_JOBS', '4'))
def run(n):
    r = subprocess.run(['/verif/tools/run_seed.sh', n, tier], capture_output=True, text=True, env=env)
    line = (r.stdout.strip().split('\n') or [''])[-1]
    out = ''
    try:
        out = open(f'/var/tmp/seedrun/{n}/out.txt').read()
    except OSError:
        pass
    obl = re.findall(r'(?m)^violated obligation: (\S+?): ', out)
    rc = r.returncode
    if rc == 1 and not re.search(r'(?m)^VIOLATION property=', out):
        rc = 2   # exit 1 without a VIOLATION line is a crash of the driver, not a verdict
    return n, rc, obl, line
res = {}
path = '/verif/seeded/RESULTS.json'
if os.path.exists(path):
    res = json.load(open(path))
with cf.ThreadPoolExecutor(par) as ex:
    for n, rc, obl, line in ex.map(run, names):
        meta = json.load(open(f'/verif/seeded/{n}/meta.json'))
        res[n] = dict(tier=tier, rc=rc, verdict={0: 'MISSED', 1: 'caught', 2: 'undecided', 3: 'patch does not apply'}.get(rc, str(rc)),
                      obligations=obl, summary=meta.get('summary', '')[:300])
        print(n, res[n]['verdict'], obl, flush=True)
        json.dump(res, open(path, 'w'), indent=1)
rows = ['| seed | change (as described by its author) | verdict | failing obligation(s) |', '|---|---|---|---|']
for n in sorted(res):
    r = res[n]
    rows.append(f"| {n} | {r['summary'].replace('|', '/')[:160]} | {r['verdict']} ({r['tier']}) | {', '.join(o.split('/', 1)[-1] for o in r['obligations'][:3])} |")
table = '\n'.join(rows)
p = '/verif/DESIGN.md'
s = open(p).read()
if '<!-- SEED_TABLE_BEGIN -->' in s:
    s = re.sub(r'<!-- SEED_TABLE_BEGIN -->.*<!-- SEED_TABLE_END -->', '<!-- SEED_TABLE_BEGIN -->\n' + table + '\n<!-- SEED_TABLE_END -->', s, flags=re.S)
else:
    s = s.replace('SEED_TABLE_PLACEHOLDER', '<!-- SEED_TABLE_BEGIN -->\n' + table + '\n<!-- SEED_TABLE_END -->')
open(p, 'w').write(s)
