#!/usr/bin/env python3
"""Run, once, every Kani harness that only the thorough tier registers (union over all properties) against the
current /repo tree; prints one line per harness. Development aid: the per-property thorough commands re-run these
harnesses per property; this shows in one pass (hours instead of a day) that each of them passes."""
import sys, json, os
sys.path.insert(0, '/verif/lib'); sys.path.insert(0, '/verif')
import engine_k as K, props as P
names, quick = {}, set()
for pid, pr in P.PROPS.items():
    for h in pr.get('kani', []):
        t = h.get('tiers') or ('quick', 'thorough')
        if h.get('finding'): continue
        if 'quick' in t: quick.add(h['name'])
        else: names.setdefault(h['name'], []).append(pid)
for n in quick: names.pop(n, None)   # already exercised by some property's quick check
sel = sys.argv[1:]
todo = [n for n in sorted(names) if not sel or any(s in n for s in sel)]
print(len(todo), 'thorough-only harnesses', flush=True)
d = K.prepare('thorough-union', inject=P.INJECT)
try:
    res, out, wall, rc, to = K.run(d, todo, timeout_s=4 * 3600, jobs=int(os.environ.get('VERIF_JOBS', '8')))
    open('/var/tmp/vproto/thorough_union.out', 'w').write(out)
    print('wall', round(wall), 'rc', rc, 'timeout', to)
    for n in todo:
        v = res.get(n)
        if not v: print('MISSING', n); continue
        print(v['status'], v['time_s'], v['checks'], 'covers', v['covers'], 'unsat', v['covers_unsat'], n.split('::')[-1], ','.join(names[n]), v['failures'][:1])
finally:
    K.cleanup(d)
