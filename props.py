"""Property -> verification units. Read by bin/check."""

HDR = 'datastructures::messages::header::verif_kani::'
MSG = 'datastructures::messages::verif_kani_msg::'

# module file (relative to repo root) -> [(module name, harness file under kani/src)]
INJECT = {
    'statime/src/lib.rs': [('verif_gen', 'gen.rs')],
    'statime/src/datastructures/messages/header.rs': [('verif_kani', 'header.rs')],
    'statime/src/datastructures/messages/mod.rs': [('verif_kani_msg', 'messages.rs')],
    'statime/src/port/mod.rs': [('verif_kani', 'port.rs')],
    'statime/src/port/sequence_id.rs': [('verif_seq', 'seq.rs')],
    'statime/src/time/duration.rs': [('verif_bits', 'time_dur.rs')],
    'statime/src/time/instant.rs': [('verif_bits', 'time_inst.rs')],
    'statime/src/time/mod.rs': [('verif_time', 'time_mod.rs')],
    'statime/src/bmc/foreign_master.rs': [('verif_fm', 'foreign_master.rs')],
    'statime/src/bmc/dataset_comparison.rs': [('verif_cmp', 'dataset_comparison.rs')],
    'statime/src/bmc/bmca.rs': [('verif_bmca', 'bmc_bmca.rs')],
    'statime/src/ptp_instance.rs': [('verif_inst', 'instance.rs')],
    'statime/src/filters/kalman.rs': [('verif_servo', 'kalman.rs')],
    'statime/src/filters/basic.rs': [('verif_basic', 'basic.rs')],
    'statime/src/port/actions.rs': [('verif_act', 'actions.rs')],
    'statime/src/datastructures/common/tlv.rs': [('verif_tlv', 'tlv_mod.rs')],
}


def module_file_for(modpath):
    """harness module path -> (repo file, harness source)"""
    table = {
        'datastructures::messages::header::verif_kani': ('statime/src/datastructures/messages/header.rs', 'header.rs'),
        'datastructures::messages::verif_kani_msg': ('statime/src/datastructures/messages/mod.rs', 'messages.rs'),
        'port::verif_kani::slave_h': ('statime/src/port/mod.rs', 'port.rs'),
        'port::sequence_id::verif_seq': ('statime/src/port/sequence_id.rs', 'seq.rs'),
    }
    return table[modpath]


def kani_contracts(pid):
    return []


def H(prefix, name, **kw):
    d = dict(name=prefix + name)
    d.update(kw)
    return d


GLOBAL_TRUSTED = [
    'Verus 0.2026.09.13 + Z3 (VC generation and SMT solving)',
    'Kani 0.68 MIR->goto translation, CBMC 6.11 + CaDiCaL/Kissat',
    'rustc front end shared by both tools',
]
GLOBAL_ASSUMPTIONS = [
    'termination of non-loop code and absence of stack overflow are not verified by Kani',
]

PROPS = {
    'C16': dict(
        verus=['time'],
        kani=[],
        exec=[dict(name='c16_log_interval', label='enumerated by execution: all 256 i8 log-interval values (191 in the representable/defined range n <= 65) on the real functions, compared with exact integers; not deductive')],
        assumptions=[
            'contracts of the `fixed` crate operations (shim/fixed.rs) are assumed, not verified: + - neg abs from_bits to_bits frac to_num to_fixed lossy_into lossless_try_into as exact integer formulas on bit patterns with representability preconditions',
            'f64 -> fixed conversions are uninterpreted in Verus; the log-interval clause (2^n s) is decided by executing the real function on all 256 i8 inputs (labelled enumerated, not deductive)',
        ],
    ),
    'C18': dict(
        verus=['overlay'],
        kani=[],
        assumptions=[
            'f64 arithmetic and f64->fixed conversion are uninterpreted in Verus (ppm is seen only through f64_scaled(ppm, 32)); the rate law is therefore proved as: reading = r + shift + fixed((r - last_sync) * ppm) / 10^6 with the exact truncation rules of the fixed crate',
            'the underlying clock reads within [0, 2^48 s); readings and intermediates representable (stated as preconditions)',
            'contracts of Time/Duration operators are those verified in unit time (same extracted items)',
        ],
    ),
    'C04': dict(
        verus=['framing'],
        kani=[
            H(HDR, 'c04_header_decode_matches_spec', functions=['statime/src/datastructures/messages/header.rs: Header::deserialize_header']),
            H(HDR, 'c04_header_decode_short_is_error'),
            H(HDR, 'c04_header_encode_matches_spec_and_round_trips', functions=['statime/src/datastructures/messages/header.rs: Header::serialize_header']),
            H(HDR, 'c04_header_decode_encode_decode'),
            H(MSG, 'c04_enum_clock_accuracy', functions=['statime/src/datastructures/common/clock_accuracy.rs: ClockAccuracy::{from_primitive,to_primitive,cmp_numeric}']),
            H(MSG, 'c04_enum_time_source', functions=['statime/src/datastructures/common/time_source.rs: TimeSource::{from_primitive,to_primitive}']),
            H(MSG, 'c04_enum_tlv_type', functions=['statime/src/datastructures/common/tlv.rs: TlvType::{from_primitive,to_primitive,announce_propagate}']),
            H(MSG, 'c04_enum_message_type_control_action', functions=['statime/src/datastructures/messages/mod.rs: MessageType::try_from', 'statime/src/datastructures/messages/control_field.rs: ControlField::{from,to_primitive}']),
            H(MSG, 'c04_body_sync_delayreq_followup', functions=['statime/src/datastructures/messages/mod.rs: MessageBody::{deserialize,serialize,wire_size,content_type}', 'statime/src/datastructures/messages/sync.rs: SyncMessage::{serialize_content,deserialize_content}', 'statime/src/datastructures/messages/delay_req.rs: DelayReqMessage::{serialize_content,deserialize_content}', 'statime/src/datastructures/messages/follow_up.rs: FollowUpMessage::{serialize_content,deserialize_content}', 'statime/src/datastructures/common/timestamp.rs: WireTimestamp::{serialize,deserialize}']),
            H(MSG, 'c04_body_delayresp_pdelayresp_pdelayrespfollowup', functions=['statime/src/datastructures/messages/delay_resp.rs: DelayRespMessage::{serialize_content,deserialize_content}', 'statime/src/datastructures/messages/p_delay_resp.rs: PDelayRespMessage::{serialize_content,deserialize_content}', 'statime/src/datastructures/messages/p_delay_resp_follow_up.rs: PDelayRespFollowUpMessage::{serialize_content,deserialize_content}', 'statime/src/datastructures/common/port_identity.rs: PortIdentity::{serialize,deserialize}']),
            H(MSG, 'c04_body_pdelayreq', functions=['statime/src/datastructures/messages/p_delay_req.rs: PDelayReqMessage::{serialize_content,deserialize_content}']),
            H(MSG, 'c04_body_announce', functions=['statime/src/datastructures/messages/announce.rs: AnnounceMessage::{serialize_content,deserialize_content}', 'statime/src/datastructures/common/clock_quality.rs: ClockQuality::{serialize,deserialize}']),
            H(MSG, 'c04_body_signaling_management_self_consistent'),
        ],
    ),
}
