"""Property -> verification units. Read by bin/check."""

HDR = 'datastructures::messages::header::verif_kani::'

# module file (relative to repo root) -> [(module name, harness file under kani/src)]
INJECT = {
    'statime/src/lib.rs': [('verif_gen', 'gen.rs')],
    'statime/src/datastructures/messages/header.rs': [('verif_kani', 'header.rs')],
}


def module_file_for(modpath):
    """harness module path -> (repo file, harness source)"""
    table = {
        'datastructures::messages::header::verif_kani': ('statime/src/datastructures/messages/header.rs', 'header.rs'),
    }
    return table[modpath]


def kani_contracts(pid):
    return []


def H(prefix, name, **kw):
    d = dict(name=prefix + name)
    d.update(kw)
    return d


GLOBAL_TRUSTED = [
    'Verus 0.2026.09.13 + Z3 (VC generation and SMT solving)',
    'Kani 0.68 MIR->goto translation, CBMC 6.11 + CaDiCaL/Kissat',
    'rustc front end shared by both tools',
]
GLOBAL_ASSUMPTIONS = [
    'termination of non-loop code and absence of stack overflow are not verified by Kani',
]

PROPS = {
    'C16': dict(
        verus=['time'],
        kani=[],
        assumptions=[
            'contracts of the `fixed` crate operations (shim/fixed.rs) are assumed, not verified: + - neg abs from_bits to_bits frac to_num to_fixed lossy_into lossless_try_into as exact integer formulas on bit patterns with representability preconditions',
            'f64 -> fixed conversions are uninterpreted in Verus; the log-interval clause (2^n s) is decided by executing the real function on all 256 i8 inputs (labelled enumerated, not deductive)',
        ],
    ),
    'C04': dict(
        verus=[],
        kani=[
            H(HDR, 'c04_header_decode_matches_spec', functions=['statime/src/datastructures/messages/header.rs: Header::deserialize_header']),
            H(HDR, 'c04_header_decode_short_is_error'),
            H(HDR, 'c04_header_encode_matches_spec_and_round_trips', functions=['statime/src/datastructures/messages/header.rs: Header::serialize_header']),
            H(HDR, 'c04_header_decode_encode_decode'),
        ],
    ),
}
