"""Property -> verification units. Read by bin/check.

A Kani harness entry: name (fully qualified), tiers, unwind is part of the harness source,
`bounded` (label, present => never counted as an unbounded proof), `finding` (id in KNOWN_FINDINGS.json;
the harness is expected to fail exactly in the listed way while the finding is open), `functions`
(real functions of /repo it puts under contract).
"""

HDR = 'datastructures::messages::header::verif_kani::'
MSG = 'datastructures::messages::verif_kani_msg::'
S = 'port::verif_kani::slave_h::'
M = 'port::verif_kani::master_h::'
B = 'port::verif_kani::bmca_h::'
A = 'port::verif_kani::announce_h::'
D = 'port::verif_kani::dispatch_h::'
F = 'bmc::foreign_master::verif_fm::'
C = 'bmc::dataset_comparison::verif_cmp::'
Q = 'bmc::bmca::verif_bmca::'
I = 'ptp_instance::verif_inst::'
KS = 'filters::kalman::verif_servo::'
KB = 'filters::basic::verif_basic::'
ACT = 'port::actions::verif_act::'
SEQ = 'port::sequence_id::verif_seq::'

# module file (relative to repo root) -> [(module name, harness file under kani/src)]
INJECT = {
    'statime/src/lib.rs': [('verif_gen', 'gen.rs')],
    'statime/src/datastructures/messages/header.rs': [('verif_kani', 'header.rs')],
    'statime/src/datastructures/messages/mod.rs': [('verif_kani_msg', 'messages.rs')],
    'statime/src/datastructures/common/tlv.rs': [('verif_tlv', 'tlv_mod.rs')],
    'statime/src/port/mod.rs': [('verif_kani', 'port.rs')],
    'statime/src/port/sequence_id.rs': [('verif_seq', 'seq.rs')],
    'statime/src/port/actions.rs': [('verif_act', 'actions.rs')],
    'statime/src/time/duration.rs': [('verif_bits', 'time_dur.rs')],
    'statime/src/time/instant.rs': [('verif_bits', 'time_inst.rs')],
    'statime/src/time/mod.rs': [('verif_time', 'time_mod.rs')],
    'statime/src/bmc/foreign_master.rs': [('verif_fm', 'foreign_master.rs')],
    'statime/src/bmc/dataset_comparison.rs': [('verif_cmp', 'dataset_comparison.rs')],
    'statime/src/bmc/bmca.rs': [('verif_bmca', 'bmc_bmca.rs')],
    'statime/src/ptp_instance.rs': [('verif_inst', 'instance.rs')],
    'statime/src/filters/kalman.rs': [('verif_servo', 'kalman.rs')],
    'statime/src/filters/basic.rs': [('verif_basic', 'basic.rs')],
}

_MODFILES = {
    'datastructures::messages::header::verif_kani': ('statime/src/datastructures/messages/header.rs', 'header.rs'),
    'datastructures::messages::verif_kani_msg': ('statime/src/datastructures/messages/mod.rs', 'messages.rs'),
    'port::verif_kani::slave_h': ('statime/src/port/mod.rs', 'port.rs'),
    'port::verif_kani::master_h': ('statime/src/port/mod.rs', 'port.rs'),
    'port::verif_kani::bmca_h': ('statime/src/port/mod.rs', 'port.rs'),
    'port::verif_kani::announce_h': ('statime/src/port/mod.rs', 'port.rs'),
    'port::verif_kani::dispatch_h': ('statime/src/port/mod.rs', 'port.rs'),
    'port::sequence_id::verif_seq': ('statime/src/port/sequence_id.rs', 'seq.rs'),
    'port::actions::verif_act': ('statime/src/port/actions.rs', 'actions.rs'),
    'bmc::foreign_master::verif_fm': ('statime/src/bmc/foreign_master.rs', 'foreign_master.rs'),
    'datastructures::common::tlv::verif_tlv': ('statime/src/datastructures/common/tlv.rs', 'tlv_mod.rs'),
    'time::duration::verif_bits::serde_contract': ('statime/src/time/duration.rs', 'time_dur.rs'),
    'bmc::dataset_comparison::verif_cmp': ('statime/src/bmc/dataset_comparison.rs', 'dataset_comparison.rs'),
    'bmc::bmca::verif_bmca': ('statime/src/bmc/bmca.rs', 'bmc_bmca.rs'),
    'ptp_instance::verif_inst': ('statime/src/ptp_instance.rs', 'instance.rs'),
    'time::verif_time': ('statime/src/time/mod.rs', 'time_mod.rs'),
    'filters::kalman::verif_servo': ('statime/src/filters/kalman.rs', 'kalman.rs'),
    'filters::basic::verif_basic': ('statime/src/filters/basic.rs', 'basic.rs'),
}


def module_file_for(modpath):
    """harness module path -> (repo file, harness source that receives a replay test)"""
    rel, src = _MODFILES[modpath]
    # replay tests for port::verif_kani::<x> go into the sub-file of that module
    sub = {'slave_h': 'port_slave.rs', 'master_h': 'port_master.rs', 'bmca_h': 'port_bmca.rs',
           'announce_h': 'port_announce.rs', 'dispatch_h': 'port_dispatch.rs'}
    last = modpath.split('::')[-1]
    return rel, src, sub.get(last)


def kani_contracts(pid):
    return []


# Verus obligation (unit, function) -> Kani harness that looks for a concrete failing input when that obligation fails
TM = 'time::verif_time::'
VERUS_PAIRS = {
    ('time', 'TimeInterval::from'): TM + 'c16_pair_duration_to_interval_floor',
    ('time', 'c16_duration_to_interval_floor'): TM + 'c16_pair_duration_to_interval_floor',
    ('time', 'c16_interval_round_trip'): TM + 'c16_pair_interval_round_trip',
    ('time', 'Duration::from'): TM + 'c16_pair_interval_round_trip',
    ('time', 'Time::add'): TM + 'c16_pair_add_sub_exact',
    ('time', 'Time::sub'): TM + 'c16_pair_add_sub_exact',
    ('time', 'Duration::add'): TM + 'c16_pair_add_sub_exact',
    ('time', 'Duration::neg'): TM + 'c16_pair_add_sub_exact',
    ('time', 'c16_add_then_sub'): TM + 'c16_pair_add_sub_exact',
    ('time', 'c16_diff_then_add'): TM + 'c16_pair_add_sub_exact',
    ('time', 'Time::from'): TM + 'c16_pair_time_of_wire',
    ('time', 'Time::subnano'): TM + 'c16_pair_subnano',
}

QT = ('quick', 'thorough')
TH = ('thorough',)


def H(prefix, name, tiers=QT, **kw):
    d = dict(name=prefix + name, tiers=tiers)
    d.update(kw)
    return d


# ---- textual guards: stubs are only sound while these hold in /repo (lost => undecided, exit 2) ----
TEXT_GUARDS = [
    # (file, regex that must match, why)
    ('statime/src/port/actions.rs',
     r'pub\(super\) fn from\(list: ArrayVec<PortAction<\'a>, MAX_ACTIONS>\) -> Self \{\s*Self \{\s*internal: list\.into_iter\(\)\.fuse\(\),\s*tlvs: TlvSetIterator::empty\(\),\s*sender_identity: Default::default\(\),\s*\}\s*\}',
     'PortActionIterator::from is stubbed by a recording copy of exactly this body'),
    ('statime/src/port/slave.rs', r'\)\s*/ 2\.0,', 'the only Duration division by a float in port/slave.rs is `/ 2.0`'),
    ('statime/src/port/slave.rs', r'\(raw_sync_offset - raw_delay_offset\) / 2\)', 'the only Duration division by an integer in port/slave.rs is `/ 2`'),
    ('statime/src/bmc/foreign_master.rs', r'Duration::from\(announce_interval\) \* FOREIGN_MASTER_TIME_WINDOW;', 'the only Duration multiplication in bmc/foreign_master.rs is by FOREIGN_MASTER_TIME_WINDOW'),
    ('statime/src/bmc/foreign_master.rs', r'const FOREIGN_MASTER_TIME_WINDOW: u16 = 4;', 'window constant used by the Mul stub and the spec'),
]
# number of `/` applied to durations in slave.rs must stay 2 (guards above name them)
TEXT_COUNTS = [
    ('statime/src/port/slave.rs', r'\)\s*/\s*2(\.0)?\b', 2, 'exactly two Duration divisions in port/slave.rs'),
]

GLOBAL_TRUSTED = [
    'Verus 0.2026.09.13 + Z3 (VC generation and SMT solving)',
    'Kani 0.68 MIR->goto translation, CBMC 6.11 + CaDiCaL',
    'rustc front end shared by both tools',
]
GLOBAL_ASSUMPTIONS = [
    'termination of non-loop code and absence of stack overflow are not verified by Kani',
    'log macros are disabled (log::max_level() == Off): formatting code of log statements is not verified',
]

KANI_STUB_TRUST = [
    'Kani stub: Duration / TF -> bits/2 and Duration * TF -> bits*4 (only divisions by 2 / 2.0 and the multiplication by FOREIGN_MASTER_TIME_WINDOW occur; textual guards) - guaranteed by Verus unit time (Div/Mul contracts)',
    'Kani stub: WireTimestamp::from(Time) -> arbitrary function of the time - exact contract proved in Verus unit time',
    'Kani stub: Interval::as_core_duration, core::time::Duration::{mul_f64, from_secs_f64} -> arbitrary duration (CBMC powi is inexact; no Kani verdict depends on a timer value)',
    'Kani stub: PortActionIterator::from -> identical construction + recording (textual guard on the original body; c10_action_iterator_yields_list_then_ends proves the iterator yields exactly the list)',
    'Kani stub (announce-tx unit only): TlvSetBuilder::add -> contract "needs room; used += wire_size" (copying a value of symbolic length is out of reach); the real add is checked against it for lengths <= 8 (c15_tlv_builder_add_matches_contract)',
    'Kani stub: Message::serialize -> returns wire_size and records the message (port units compare emitted frames as messages; the byte encoding is the C04 obligations c04_message_serialize_layout / header / bodies)',
    'Kani modular stubs (caller checked against the callee contract; each callee has its own harness): C06 chain Bmca::reregister_announce_message / ForeignMasterList::register_announce_message / ForeignMaster::{register_announce_message, step_age, purge_old_messages} -> recording stubs, take_qualified_announce_messages -> "hands out <= 2 stored messages", find_best_announce_message -> "one of the candidates"; instance BMCA: Port::{calculate_best_local_announce_message, best_local_announce_message_for_bmca, best_local_announce_message_for_state, set_recommended_state, step_announce_age}, Bmca::{calculate_recommended_state, step_age, take_best_port_announce_message} -> recording stubs, Duration::from_seconds / Interval::as_duration -> harness-chosen duration',
    'Kani stubs (Kalman measurement unit): estimator updates (BaseFilter::{progress_filtertime, absorb_*}, MeasurementErrorEstimator::{absorb_measurement, measurement_variance}, KalmanFilter::update_wander) -> no-ops (no access to the clock), KalmanFilter::steer -> recording stub',
    'test doubles honouring the public trait contracts: RecFilter, RecClock (may fail at any call), AnyRng, AnyAccept, ChkLock, AnyProvider',
]

PORT_ASSUME = [
    'port representation invariant as precondition: BMCA identity = port identity; no completed exchange left stored (re-established by every handler: obligations sync_valid/delay_valid/peer_valid); foreign-master table empty in port-level units (its contents are the C06 unit)',
    'C09/C14 domain: host timestamps in [2^48, 2^63) ns, master timestamps >= 2^19 s with nanoseconds < 10^9, asymmetry in i64 ns, any 64-bit correction field',
]

_slave_fns = ['statime/src/port/slave.rs: Port::{handle_sync, handle_follow_up, handle_delay_timestamp, handle_delay_resp, handle_time_measurement, extract_measurement, send_delay_request, send_e2e_delay_request}']
_peer_fns = ['statime/src/port/slave.rs: Port::{send_p2p_delay_request, handle_pdelay_timestamp, handle_peer_delay_response, handle_peer_delay_response_follow_up, extract_measurement}', 'statime/src/port/mod.rs: Port::set_forced_port_state']
_master_fns = ['statime/src/port/master.rs: Port::{send_sync, handle_sync_timestamp, handle_delay_req, handle_pdelay_req, handle_pdelay_response_timestamp}', 'statime/src/datastructures/messages/mod.rs: Message::{sync, follow_up, delay_resp, pdelay_resp, pdelay_resp_follow_up, delay_req, pdelay_req}', 'statime/src/port/mod.rs: Port::handle_send_timestamp']

# ------------------------------------------------------------------------------------------------ harness groups
C09_H = [
    H(S, 'c09_sync_two_step', functions=_slave_fns),
    H(S, 'c09_sync_one_step'),
    H(S, 'c09_follow_up'),
    H(S, 'c09_delay_timestamp'),
    H(S, 'c09_delay_resp'),
    H(S, 'c09_send_e2e_delay_request'),
]
C14_H = [
    H(S, 'c14_send_p2p_delay_request', functions=_peer_fns),
    H(S, 'c14_pdelay_timestamp'),
    H(S, 'c14_pdelay_resp_two_step'),
    H(S, 'c14_pdelay_resp_one_step'),
    H(S, 'c14_pdelay_resp_follow_up'),
]
C14_FINDINGS = [
    H(B, 'c14_finding_receipt_timeout_leaves_faulty', finding='F-C14-receipt-timeout-leaves-faulty'),
    H(B, 'c14_finding_bmca_multiport_rule_leaves_faulty', finding='F-C14-bmca-multiport-leaves-faulty'),
    H(B, 'c14_finding_announce_multiport_rule_leaves_faulty', finding='F-C14-announce-multiport-leaves-faulty'),
]
C10_H = [
    H(SEQ, 'c10_sequence_id_generate_is_plus_one_mod_2_16', functions=['statime/src/port/sequence_id.rs: SequenceIdGenerator::{new, generate}']),
    H(ACT, 'c10_action_iterator_yields_list_then_ends', functions=['statime/src/port/actions.rs: PortActionIterator::{from, next}']),
    H(M, 'c10_send_sync', functions=_master_fns),
    H(M, 'c10_follow_up_for_sync_timestamp'),
    H(M, 'c10_delay_resp_for_delay_req'),
    H(M, 'c10_pdelay_resp_for_pdelay_req'),
    H(M, 'c10_pdelay_resp_follow_up_for_timestamp'),
    H(MSG, 'c04_message_serialize_layout', functions=['statime/src/datastructures/messages/mod.rs: Message::{serialize, wire_size}']),
]
ANNOUNCE_TX = H(A, 'c15_send_announce_with_any_provider',
                bounded='provider offers at most K=2 TLVs per call (arbitrary types, senders, even lengths up to the room); path trace list <= 2 entries',
                functions=['statime/src/port/master.rs: Port::send_announce', 'statime/src/datastructures/messages/mod.rs: Message::announce', 'statime/src/datastructures/common/tlv.rs: TlvSetBuilder::{new, add, build}, Tlv::serialize'])
ANNOUNCE_TX['tiers'] = TH
ANNOUNCE_TX0 = H(A, 'c11_send_announce_contents', functions=['statime/src/port/master.rs: Port::send_announce', 'statime/src/datastructures/messages/mod.rs: Message::announce'])
ANNOUNCE_TX1 = H(A, 'c15_send_announce_one_tlv', tiers=TH, bounded='provider offers at most one TLV per call; path trace list <= 2 entries')
ANNOUNCE_RX_PARENT = H(B, 'c11_announce_from_parent_updates_data_sets', functions=['statime/src/port/bmca.rs: Port::handle_announce', 'statime/src/datastructures/messages/announce.rs: AnnounceMessage::time_properties', 'statime/src/bmc/bmca.rs: Bmca::register_announce_message'])
ANNOUNCE_RX_ACCEPT = H(B, 'c06_announce_accepted_effects')
ANNOUNCE_RX_REJECT = H(B, 'c07_announce_unacceptable_or_own_is_frame')
ANNOUNCE_LOCKS = H(A, 'c17_send_announce_lock_discipline_with_tlv', bounded='provider offers one TLV with a 4-octet value; path trace list <= 1 entry; port in MASTER state',
                   functions=['statime/src/port/master.rs: Port::send_announce'])
ANNOUNCE_TXP = H(A, 'c15_send_announce_own_path_trace', bounded='no forwarded TLV; path trace list <= 2 entries',
                 functions=['statime/src/port/master.rs: Port::send_announce', 'statime/src/datastructures/messages/mod.rs: Message::announce'])
ANNOUNCE_TX2 = H(A, 'c15_send_announce_two_tlvs', bounded='provider offers at most K = 2 TLVs per call; path trace off',
                 functions=['statime/src/port/master.rs: Port::send_announce'])
PATH_TRACE1 = H(B, 'c15_path_trace_one_entry', bounded='the Announce carries exactly one TLV, a PATH_TRACE with one identity',
                functions=['statime/src/port/bmca.rs: Port::handle_announce'])
PATH_TRACE = H(B, 'c15_path_trace_store_and_loop_discard', tiers=TH,
               bounded='the Announce carries exactly one TLV, a PATH_TRACE with <= 2 identities')
RECEIPT_TIMER = H(B, 'c08_announce_receipt_timeout', functions=['statime/src/port/mod.rs: Port::{handle_announce_receipt_timer, set_forced_port_state}'])
APPLY = H(B, 'c05_apply_decision_port_state_and_data_sets', functions=['statime/src/port/bmca.rs: Port::{set_recommended_state, set_recommended_port_state}'])
COMPARE = [
    H(C, 'c05_compare_matches_figures_34_35', functions=['statime/src/bmc/dataset_comparison.rs: ComparisonDataset::{compare, compare_same_identity, compare_different_identity}, DatasetOrdering::as_ordering']),
    H(C, 'c05_comparison_dataset_constructors', functions=['statime/src/bmc/dataset_comparison.rs: ComparisonDataset::{from_own_data, from_announce_message}']),
    H(C, 'c05_compare_is_transitive_on_consistent_sets'),
    H(Q, 'c05_state_decision_matches_figure_33', functions=['statime/src/bmc/bmca.rs: Bmca::{calculate_recommended_state, calculate_recommended_state_low_class, calculate_recommended_state_high_class, compare_global_and_port, compare_d0_best}']),
    H(Q, 'c05_find_best_is_a_maximum', tiers=TH, bounded='two candidates (more candidates: paper step from antisymmetry + transitivity)', functions=['statime/src/bmc/bmca.rs: Bmca::find_best_announce_message, BestAnnounceMessage::compare']),
]
_fm_bound = 'foreign-master table of concrete shape (records x messages) in {[], [1], [2], [2,1], [2,2]}; payload abstraction (only sender, sequence id, stepsRemoved, age are arbitrary)'
_SHAPES = ['empty', 'one_single', 'one_pair', 'pair_and_single', 'two_pairs']
def _shaped(prefix, name, shapes, quick=('one_pair', 'pair_and_single'), **kw):
    return [H(prefix, f'{name}__{s}', tiers=QT if s in quick else TH, bounded=_fm_bound, **(kw if i == 0 else {})) for i, s in enumerate(shapes)]
FOREIGN = (
    [H(F, 'c06_new_list_is_valid_and_empty', functions=['statime/src/bmc/foreign_master.rs: ForeignMasterList::{new, is_announce_message_qualified, register_announce_message, step_age, take_qualified_announce_messages, get_foreign_master, get_foreign_master_mut}, ForeignMaster::{new, register_announce_message, step_age, purge_old_messages}'])]
    + _shaped(F, 'c06_qualification_rule', _SHAPES)
    + _shaped(F, 'c06_take_qualified_needs_two_messages', _SHAPES)
    # register / step_age / take_best: only the shapes CBMC can finish (records with two symbolic messages exhaust
    # 48 GB in ArrayVec::retain / remove on 250-byte elements); larger shapes are NOT discharged (see DESIGN 5, C06)
    + [H(F, 'c06_register_preserves_valid__empty', bounded=_fm_bound),
       H(F, 'c06_step_age_ages_and_expires__empty', bounded=_fm_bound),
       H(F, 'c06_step_age_ages_and_expires__one_single', tiers=TH, bounded=_fm_bound),
       H(Q, 'c06_take_best_keeps_age_and_needs_two__one_single', bounded=_fm_bound, functions=['statime/src/bmc/bmca.rs: Bmca::{take_best_port_announce_message, reregister_announce_message}']),
       # modular call chain (callee replaced by a recording / contract stub): no payload abstraction on the
       # message that is handed through; see kani/src/foreign_master.rs "MODULAR CALL CHAIN"
       H(Q, 'c06_take_best_reregisters_erbest_with_its_age', bounded='take_qualified stub offers <= 2 candidates',
         functions=['statime/src/bmc/bmca.rs: Bmca::{take_best_port_announce_message, reregister_announce_message, register_announce_message}']),
       H(Q, 'c06_reregister_hands_age_to_list'),
       H(F, 'c06_list_register_hands_age_to_record__one_single', bounded=_fm_bound),
       H(F, 'c06_list_register_hands_age_to_record__pair_and_single', bounded=_fm_bound),
       H(F, 'c06_record_register_appends_with_given_age__empty', bounded='record with 0 or 2 stored messages; purge removes nothing or everything'),
       H(F, 'c06_record_register_appends_with_given_age__pair_kept', bounded='record with 0 or 2 stored messages; purge removes nothing or everything'),
       H(F, 'c06_record_register_appends_with_given_age__pair_purged', bounded='record with 0 or 2 stored messages; purge removes nothing or everything'),
       H(F, 'c06_record_register_at_capacity_drops_oldest', bounded='concrete instance: 8 stored messages with fixed payload'),
       H(F, 'c06_record_purge_keeps_exactly_the_young__single', bounded='record with one stored message (two: CBMC out of memory in ArrayVec::retain)'),
       H(F, 'c06_record_step_age_adds_step_then_purges', bounded='record with <= 2 stored messages'),
       H(F, 'c06_list_step_age_removes_exactly_the_emptied__one_single', bounded='one record (two: CBMC out of memory in ArrayVec::remove)'),
       H(F, 'c06_register_at_capacity', bounded='concrete instance: 8 records built directly, fixed newcomer identity, arbitrary sequence id / stepsRemoved'),
       H(F, 'c06_finding_duplicate_sequence_id_counts', finding='F-C06-duplicate-sequence-id')]
)
DISPATCH = [
    H(D, 'c07_foreign_domain_version_or_malformed_is_frame', tiers=TH, functions=['statime/src/port/mod.rs: Port::{parse_and_filter, handle_event_receive, handle_general_receive, handle_general_internal}', 'statime/src/datastructures/messages/mod.rs: is_compatible']),
    H(D, 'c07_event_message_on_general_channel_is_frame', tiers=TH),
]
NOT_SLAVE = H(S, 'c07_slave_handlers_when_not_slave', tiers=TH)
SERVO = [
    H(KS, 'c13_clamp_keeps_commanded_frequency_in_bounds', functions=['statime/src/filters/kalman.rs: clamp_adjustment, KalmanFilter::{change_frequency, steer, step, demobilize}']),
    H(KS, 'c13_change_frequency_commands_within_bounds'),
    H(KS, 'c13_step_only_at_or_above_threshold'),
    H(KS, 'c13_demobilize_at_most_one_final_command'),
    H(KS, 'c13_measurement_arms_control_only_with_an_offset', functions=['statime/src/filters/kalman.rs: KalmanFilter::{measurement, ensure_freq_init}']),
    H(KB, 'c13_basic_filter_commands_are_finite', functions=['statime/src/filters/basic.rs: BasicFilter::measurement']),
]
INSTANCE = [
    H(I, 'c19_instance_snapshots_equal_live_state', functions=['statime/src/ptp_instance.rs: PtpInstance::{default_ds, current_ds, parent_ds, time_properties_ds, path_trace_ds}', 'statime/src/observability/{default,parent,current}.rs: From / from_state']),
    H(I, 'c17_instance_setters_single_write', functions=['statime/src/ptp_instance.rs: PtpInstance::{set_clock_quality, set_slave_only}']),
]
SERDE = H('time::duration::verif_bits::serde_contract::', 'c19_duration_serializes_its_full_bit_pattern', functions=['statime/src/time/duration.rs: impl serde::Serialize for Duration', 'statime/src/datastructures/common/time_interval.rs: impl serde::Serialize for TimeInterval'])
PORT_DS = H(B, 'c19_port_ds_matches_port', functions=['statime/src/port/mod.rs: Port::{port_ds, is_steering, is_master}'])
INSTANCE_BMCA = [
    H(B, 'c05_instance_bmca_visits_every_port', bounded='instance with two ports (the loops of PtpInstanceState::bmca are per-port and uniform)',
      functions=['statime/src/ptp_instance.rs: PtpInstance::bmca, PtpInstanceState::bmca']),
    H(B, 'c05_port_erbest_accessors', functions=['statime/src/port/bmca.rs: Port::{calculate_best_local_announce_message, best_local_announce_message_for_bmca, best_local_announce_message_for_state}']),
    H(B, 'c06_step_announce_age_ages_records_and_marker', functions=['statime/src/port/bmca.rs: Port::step_announce_age']),
    H(Q, 'c06_bmca_step_age_hands_step_to_list', functions=['statime/src/bmc/bmca.rs: Bmca::step_age']),
]
START_END = H(B, 'c03_start_end_bmca_is_identity', functions=['statime/src/port/mod.rs: Port::{start_bmca, end_bmca}'])
SEQ_GEN = H(SEQ, 'c10_sequence_id_generate_is_plus_one_mod_2_16', functions=['statime/src/port/sequence_id.rs: SequenceIdGenerator::{new, generate}'])
MISC_PORT = [
    H(B, 'c03_filter_update_timer', functions=['statime/src/port/mod.rs: Port::handle_filter_update_timer']),
    H(B, 'c03_start_end_bmca_is_identity', tiers=TH, functions=['statime/src/port/mod.rs: Port::{start_bmca, end_bmca}']),
]
HEADER = [
    H(HDR, 'c04_header_decode_matches_spec', functions=['statime/src/datastructures/messages/header.rs: Header::deserialize_header']),
    H(HDR, 'c04_header_decode_short_is_error'),
    H(HDR, 'c04_header_encode_matches_spec_and_round_trips', functions=['statime/src/datastructures/messages/header.rs: Header::serialize_header']),
    H(HDR, 'c04_header_decode_encode_decode'),
]
ENUMS_BODIES = [
    H(MSG, 'c04_enum_clock_accuracy', functions=['statime/src/datastructures/common/clock_accuracy.rs: ClockAccuracy::{from_primitive,to_primitive,cmp_numeric}']),
    H(MSG, 'c04_enum_time_source', functions=['statime/src/datastructures/common/time_source.rs: TimeSource::{from_primitive,to_primitive}']),
    H(MSG, 'c04_enum_tlv_type', functions=['statime/src/datastructures/common/tlv.rs: TlvType::{from_primitive,to_primitive,announce_propagate}']),
    H(MSG, 'c04_enum_message_type_control_action', functions=['statime/src/datastructures/messages/mod.rs: MessageType::try_from', 'statime/src/datastructures/messages/control_field.rs: ControlField::{from,to_primitive}']),
    H(MSG, 'c04_body_sync_delayreq_followup', functions=['statime/src/datastructures/messages/mod.rs: MessageBody::{deserialize,serialize,wire_size,content_type}', 'statime/src/datastructures/messages/{sync,delay_req,follow_up}.rs: {serialize_content,deserialize_content}', 'statime/src/datastructures/common/timestamp.rs: WireTimestamp::{serialize,deserialize}']),
    H(MSG, 'c04_body_delayresp_pdelayresp_pdelayrespfollowup', functions=['statime/src/datastructures/messages/{delay_resp,p_delay_resp,p_delay_resp_follow_up}.rs: {serialize_content,deserialize_content}', 'statime/src/datastructures/common/port_identity.rs: PortIdentity::{serialize,deserialize}']),
    H(MSG, 'c04_body_pdelayreq', functions=['statime/src/datastructures/messages/p_delay_req.rs: PDelayReqMessage::{serialize_content,deserialize_content}']),
    H(MSG, 'c04_body_announce', functions=['statime/src/datastructures/messages/announce.rs: AnnounceMessage::{serialize_content,deserialize_content}', 'statime/src/datastructures/common/clock_quality.rs: ClockQuality::{serialize,deserialize}']),
    H(MSG, 'c04_body_signaling_management_self_consistent'),
    H(MSG, 'c04_message_serialize_layout', functions=['statime/src/datastructures/messages/mod.rs: Message::{serialize, wire_size}']),
]


def th(h):
    """same harness, thorough tier only"""
    d = dict(h); d['tiers'] = TH; return d


PROPS = {
    'C03': dict(
        verus=['framing'],
        kani=[
            # quick: one representative of every operation family (each harness checks panic/overflow/bounds/assert
            # freedom of everything it executes); thorough: every harness of every unit
            H(S, 'c09_sync_one_step'), H(S, 'c09_delay_resp'), H(S, 'c14_pdelay_timestamp'),
            H(M, 'c10_delay_resp_for_delay_req'), H(M, 'c10_follow_up_for_sync_timestamp'),
            ANNOUNCE_RX_PARENT, ANNOUNCE_RX_ACCEPT, RECEIPT_TIMER, APPLY, ANNOUNCE_TX0, ANNOUNCE_TXP, ANNOUNCE_TX2, ANNOUNCE_TX1, ANNOUNCE_TX, th(PATH_TRACE1),
            H(S, 'c03_finding_sync_correction_exceeds_receive_time', finding='F-C03-wire-time-underflow'),
            H(S, 'c03_finding_follow_up_correction_below_zero', finding='F-C03-wire-time-underflow-follow-up', tiers=TH),
            H(F, 'c06_register_preserves_valid__empty', bounded=_fm_bound), H(F, 'c06_register_at_capacity', bounded='concrete instance: 8 records, fixed newcomer identity'),
        ] + MISC_PORT[:1] + [th(h) for h in (C09_H + C14_H + C10_H + [PATH_TRACE, NOT_SLAVE] + DISPATCH + MISC_PORT[1:] + FOREIGN[:-1] + INSTANCE + INSTANCE_BMCA + COMPARE)
                            if h['name'] not in (S + 'c09_sync_one_step', S + 'c09_delay_resp', S + 'c14_pdelay_timestamp', M + 'c10_delay_resp_for_delay_req', M + 'c10_follow_up_for_sync_timestamp', F + 'c06_register_preserves_valid__empty', F + 'c06_register_at_capacity')],
        assumptions=PORT_ASSUME + [
            'C03 is the conjunction of "returns normally and re-establishes the invariant" over every contracted operation: CBMC checks arithmetic overflow (irrespective of build profile), shift overflow, index/slice bounds, unwrap/expect, assert!/debug_assert!/unreachable!, ArrayVec capacity panics, division by zero in every harness; by induction over calls this covers every call order from states satisfying the invariant',
            'Time +- Duration under/overflow on wire-controlled operands (host timestamps below 2^48 ns with large correction fields) is an OPEN KNOWN FINDING (F-C03-wire-time-underflow); the main slave harnesses verify the domain from 2^48 ns, the finding harnesses show the failure over the full domain',
            'Kalman matrix updates (float) are outside C03\'s Kani units; BasicFilter and the servo leaves are under C13',
        ],
    ),
    'C04': dict(
        verus=['framing'],
        kani=HEADER + ENUMS_BODIES,
        assumptions=['Verus framing unit assumes the header/body codec contracts (total, prefix-only dependence, sizes) that the Kani header/bodies harnesses of this same check prove on the real functions'],
    ),
    'C05': dict(
        verus=[],
        kani=COMPARE + [APPLY] + INSTANCE_BMCA[:2],
        assumptions=['the composition over the loops of PtpInstanceState::bmca (Erbest of every port recomputed once, one Ebest = one of the candidates of the ports handed to every decision, each decision applied to its own port, every port aged once) is machine-checked for an instance with two ports against recording stubs of the callees (c05_instance_bmca_visits_every_port); for more ports the per-port loops are uniform and the extension is a paper step; that Ebest is the *maximum* is c05_find_best_is_a_maximum (two candidates) + transitivity; order independence follows from antisymmetry + transitivity on consistent data sets',
                     'consistency precondition for transitivity: equal grandmasterIdentity => equal grandmaster attributes, same receiver clock, sender != receiver (without it the IEEE comparison itself is cyclic)'] + PORT_ASSUME[:1],
    ),
    'C06': dict(
        verus=[],
        kani=FOREIGN + [ANNOUNCE_RX_ACCEPT, INSTANCE_BMCA[0], INSTANCE_BMCA[2], INSTANCE_BMCA[3]],
        assumptions=['whole-history clauses are per-step contracts: ages grow by the BMCA step and messages reaching 4 intervals are purged (expiry); the next sequence id incl. 65535 -> 0 is accepted and the chosen Erbest is put back with its age (steadily announcing master is kept); the temporal conclusions are paper steps',
                     'payload abstraction and 2x2 bound of the table generator (see bounded)'],
    ),
    'C07': dict(
        verus=[],
        kani=[ANNOUNCE_RX_REJECT, H(S, 'c09_sync_two_step'), H(S, 'c09_follow_up'), H(S, 'c09_delay_resp'), NOT_SLAVE, APPLY] + DISPATCH,
        assumptions=PORT_ASSUME[:1] + ['two-run non-interference follows from single-run frames plus determinism: an input that leaves the complete view (port state, exchange records, sequence generators, RNG draws, filter and clock records, foreign-master digest, all data sets) equal to the pre-state and yields no action can be deleted from any history',
                                       'invariant used: the parent of a Slave port is acceptable and is not the port itself (established by the S1 application)'],
    ),
    'C08': dict(
        verus=[],
        kani=[RECEIPT_TIMER, APPLY, H(M, 'c10_send_sync'), H(M, 'c10_delay_resp_for_delay_req'), H(S, 'c09_send_e2e_delay_request'),
              H(Q, 'c05_state_decision_matches_figure_33'), th(H(M, 'c10_follow_up_for_sync_timestamp')), ANNOUNCE_TX0, ANNOUNCE_TX, th(NOT_SLAVE), INSTANCE_BMCA[0], INSTANCE_BMCA[1], SERVO[-2]],
        assumptions=PORT_ASSUME[:1] + ['"at most one slave port" is the paper composition of: S1 only for the port whose Erbest *is* Ebest including the receiving port identity (c05_state_decision...), distinct port identities, and every other decision leaving or not entering Slave (c05_apply...)',
                                       'a filter that has only seen peer-delay measurements not touching the clock is not decided (Kalman float internals)'],
    ),
    'C09': dict(
        verus=['time'],
        kani=C09_H + [SEQ_GEN, START_END],
        assumptions=PORT_ASSUME,
    ),
    'C10': dict(
        verus=['time'],
        kani=C10_H + [START_END],
        assumptions=PORT_ASSUME[:1] + ['"origin + correction = transmit timestamp to 2^-16 ns" is the cross-tool lemma: Kani: frame carries WireTimestamp::from(ts) and correction subnano(ts); Verus: c16_wire_round_trip'],
    ),
    'C11': dict(
        verus=[],
        kani=[ANNOUNCE_RX_PARENT, ANNOUNCE_TX0, ANNOUNCE_TX, APPLY, H(I, 'c17_instance_setters_single_write')],
        assumptions=PORT_ASSUME[:1] + ['"shows up in the next Announce" is the composition of the data-set update contracts with the Announce-contents contract (both machine-checked); the composition itself is a paper step'],
    ),
    'C12': dict(
        verus=[],
        kani=[APPLY, RECEIPT_TIMER, H(M, 'c10_send_sync'), H(S, 'c09_send_e2e_delay_request'), H(S, 'c14_send_p2p_delay_request'), ANNOUNCE_RX_ACCEPT, ANNOUNCE_TX0, ANNOUNCE_TX, INSTANCE_BMCA[0], INSTANCE_BMCA[2]],
        assumptions=PORT_ASSUME[:1] + ['safety core only: every state-changing operation requests the timers the new state needs (needs(post) minus needs(pre) is a subset of the requested timers), every periodic sender re-arms its own timer, every accepted Announce re-arms the receipt timer; the temporal conclusion (within a bounded number of intervals ... indefinitely) is a paper argument under host obedience and is NOT machine-checked',
                                       'open: recovery from Faulty (extract_measurement -> Listening) requests no timer; it relies on timers armed before the fault (see C14 findings)'],
    ),
    'C13': dict(
        verus=[],
        kani=SERVO + [RECEIPT_TIMER],
        assumptions=['scope: one call from an estimator state without NaN/inf; that NaN-freedom is an invariant of arbitrary measurement trajectories is not proved (floating point, whole history)',
                     'configuration: positive finite thresholds, bounds <= 10^12 ppm; |estimated frequency error| <= 1',
                     'matrix updates (absorb_*_steer) are stubbed out: they have no access to the clock'],
    ),
    'C14': dict(
        verus=['time'],
        kani=C14_H + C14_FINDINGS + [th(H(M, 'c10_pdelay_resp_for_pdelay_req')), th(H(M, 'c10_pdelay_resp_follow_up_for_timestamp'))],
        assumptions=PORT_ASSUME,
    ),
    'C15': dict(
        verus=['tlv'],
        kani=[ANNOUNCE_TX0, ANNOUNCE_TXP, ANNOUNCE_TX2, ANNOUNCE_TX1, ANNOUNCE_TX, PATH_TRACE1, PATH_TRACE, ANNOUNCE_RX_ACCEPT, H(MSG, 'c04_enum_tlv_type'), H('datastructures::common::tlv::verif_tlv::', 'c15_tlv_builder_add_matches_contract', bounded='TLV value length <= 8 octets', functions=['statime/src/datastructures/common/tlv.rs: TlvSetBuilder::{new, add, build}, Tlv::serialize'])],
        assumptions=PORT_ASSUME[:1] + ['daemon side (statime-linux TlvForwarder over a tokio broadcast channel): assumed contract "next_if_smaller(m) returns a TLV of size <= m, each at most once per receiver"; not verified',
                                       'ForwardTLV actions: the iterator yields the TLVs of the accepted Announce that satisfy announce_propagate (Verus tlv unit: TlvSetIterator::next, TlvType::announce_propagate); with_forward_tlvs is only reached on the accepted path (c06_announce_accepted_effects / c07_announce_unacceptable...)'],
    ),
    'C16': dict(
        verus=['time'],
        kani=[H(TM, 'c16_pair_duration_to_interval_floor', functions=['(second engine on the Verus contracts of unit time)']), H(TM, 'c16_pair_interval_round_trip'), H(TM, 'c16_pair_add_sub_exact'), H(TM, 'c16_pair_time_of_wire'), H(TM, 'c16_pair_subnano')],
        exec=[dict(name='c16_log_interval', label='enumerated by execution: all i8 log-interval values n <= 65 on the real functions, compared with exact integers; not deductive')],
        assumptions=[
            'contracts of the `fixed` crate operations (shim/fixed.rs) are assumed, not verified: + - * / % neg abs from_bits to_bits frac to_num to_fixed lossy_into lossless_try_into as exact integer formulas on bit patterns with representability preconditions',
            'f64 -> fixed conversions are uninterpreted in Verus; the log-interval clause (2^n s) is decided by executing the real function on all inputs (labelled enumerated, not deductive)',
        ],
    ),
    'C17': dict(
        verus=[],
        kani=INSTANCE + [INSTANCE_BMCA[0], ANNOUNCE_LOCKS, ANNOUNCE_RX_PARENT, APPLY, H(M, 'c10_send_sync'), H(S, 'c09_send_e2e_delay_request'), RECEIPT_TIMER, ANNOUNCE_TXP, ANNOUNCE_TX1, ANNOUNCE_TX,
                         th(H(M, 'c10_delay_resp_for_delay_req')), th(H(M, 'c10_pdelay_resp_for_pdelay_req')), th(H(S, 'c14_send_p2p_delay_request')), th(ANNOUNCE_RX_ACCEPT), th(ANNOUNCE_RX_REJECT)] + [th(h) for h in DISPATCH],
        assumptions=PORT_ASSUME[:1] + ['every harness runs over ChkLock, a PtpInstanceStateMutex that asserts acquisition depth 0 on every with_ref/with_mut; a guard cannot outlive a call (closure scoped), so "no operation nests an acquisition, from every valid state and input" is the all-histories statement',
                                       'atomicity of snapshots: each data-set update is one write acquisition (counted), each getter one read acquisition (counted); std::sync::RwLock / RefCell provide the mutual exclusion; no thread interleaving is explored (Kani has no threads)',
                                       'PtpInstance::bmca holds one with_mut and passes data sets by reference: set_recommended_state performs 0 acquisitions (counted in c05_apply...)'],
    ),
    'C18': dict(
        verus=['overlay'],
        kani=[],
        assumptions=[
            'f64 arithmetic and f64->fixed conversion are uninterpreted in Verus (ppm is seen only through f64_scaled(ppm, 32)); the rate law is proved as: reading = r + shift + fixed((r - last_sync) * ppm) / 10^6 with the exact truncation rules of the fixed crate',
            'the underlying clock reads within [0, 2^48 s); readings and intermediates representable (stated as preconditions)',
            'contracts of Time/Duration operators are those verified in unit time (same extracted items)',
        ],
    ),
    'C19': dict(
        verus=['metrics_bool'],
        kani=INSTANCE[:1] + [PORT_DS, SERDE],
        assumptions=['claimed clauses: (a) observation snapshots equal the live data sets and port state, (b) booleans are exported as 1/0. (c) the serde representation of the library of Duration/TimeInterval hands the complete bit pattern to the serializer. NOT decided: serde_json itself and the socket hop, metric-name <-> value association, Prometheus exposition syntax, HTTP Content-Length (String/fmt/serde reasoning is outside both verifiers)'],
    ),
}

for _p in PROPS.values():
    if _p.get('kani'):
        _p.setdefault('assumptions', [])
        _p['trusted_extra'] = KANI_STUB_TRUST
