//! child module of `port` (injected as `mod verif_kani;` at the end of statime/src/port/mod.rs)
#![allow(dead_code, unused_imports, missing_docs)]
#[path = "port_common.rs"]
pub(crate) mod common;
#[path = "port_slave.rs"]
mod slave_h;
