//! child module of `port` (injected as `mod verif_kani;` at the end of statime/src/port/mod.rs)
#![allow(dead_code, unused_imports, missing_docs)]
#[path = "port_common.rs"]
pub(crate) mod common;
#[path = "port_slave.rs"]
pub(crate) mod slave_h;
#[path = "port_master.rs"]
pub(crate) mod master_h;
#[path = "port_bmca.rs"]
pub(crate) mod bmca_h;
#[path = "port_announce.rs"]
pub(crate) mod announce_h;
#[path = "port_dispatch.rs"]
pub(crate) mod dispatch_h;
