//! C11 / C15 / C03 unit "announce-tx": send_announce with any TLV provider that honours its documented
//! contract ("the next available TLV, unless it is larger than max_size").
#![allow(dead_code, unused_imports, missing_docs, static_mut_refs)]
use super::common::*;
use super::slave_h::{stub_as_core_duration, stub_mul_f64};
use super::super::state::PortState;
use super::super::*;
use crate::datastructures::common::{ClockIdentity, Tlv, TlvSet, TlvSetBuilder, TlvType};
use crate::datastructures::messages::Message;
use crate::verif_gen::*;

/// BOUND of this unit: the provider offers at most K_TLV TLVs per call of send_announce; each TLV has an
/// arbitrary type, an arbitrary sender and an arbitrary even value length that fits the requested max_size
/// (in particular lengths equal to / one step below the remaining room).
const K_TLV: usize = 2;

struct AnyProvider {
    buf: [u8; MAX_DATA_LEN],
    offered: usize,
    /// sizes handed out (wire size incl. 4-octet TLV header) and whether the sender was the parent
    sizes: [usize; K_TLV],
    from_parent: [bool; K_TLV],
    types: [u16; K_TLV],
    parent: PortIdentity,
    max_seen: [usize; K_TLV],
    /// number of TLVs this provider is willing to offer (<= K_TLV)
    limit: usize,
    /// the room offered in the call that was answered with None (the last call), if there was one
    last_max: Option<usize>,
}

impl ForwardedTLVProvider for AnyProvider {
    fn next_if_smaller(&mut self, max_size: usize) -> Option<ForwardedTLV<'_>> {
        if self.offered >= self.limit || !kani::any::<bool>() {
            self.last_max = Some(max_size);
            return None;
        }
        // documented contract: never larger than max_size (a TLV has at least its 4-octet header)
        if max_size < 4 {
            self.last_max = Some(max_size);
            return None;
        }
        let len: usize = kani::any();
        kani::assume(len <= MAX_DATA_LEN);
        kani::assume(len % 2 == 0 && 4 + len <= max_size && 4 + len <= MAX_DATA_LEN);
        let ty: u16 = kani::any();
        let from_parent: bool = kani::any();
        let sender = if from_parent { self.parent } else {
            let s = any_port_identity();
            kani::assume(s != self.parent);
            s
        };
        let i = self.offered;
        self.sizes[i] = 4 + len;
        self.from_parent[i] = from_parent;
        self.types[i] = ty;
        self.max_seen[i] = max_size;
        self.offered += 1;
        Some(ForwardedTLV {
            tlv: Tlv { tlv_type: TlvType::from_primitive(ty), value: (&self.buf[..len]).into() },
            sender_identity: sender,
        })
    }
}

/// Announce emission: only from Master; sequence id +1 mod 2^16; header and body carry the current data sets
/// (C11); forwards only TLVs whose sender is the parent, drops PATH_TRACE when the path trace option is on;
/// 64 + sum of sizes <= 1024; declared length == emitted length; never panics for any conforming provider
/// (C03/C15); announce timer re-armed (C12); exactly one general send, no event send (C10).
fn announce_tx(limit: usize, allow_path_trace: bool) -> (usize, usize, bool, usize) {
    let mut inst0 = any_instance_state(2);
    if !allow_path_trace { inst0.path_trace_ds.enable = false; }
    let path_enable = inst0.path_trace_ds.enable;
    let path_len = inst0.path_trace_ds.list.len();
    let lock = ChkLock::new(inst0);
    mk_port!(port, &lock, any_port_state(), Running);
    let pre = port_view(&port);
    let inst = instance_view(lock.peek());
    let own = port.port_identity;
    let mut provider = AnyProvider {
        buf: [0x5a; MAX_DATA_LEN], offered: 0, sizes: [0; K_TLV], from_parent: [false; K_TLV], types: [0; K_TLV],
        parent: inst.parent_ds.parent_port_identity, max_seen: [0; K_TLV], limit, last_max: None,
    };

    let actions = run_actions!(port.handle_announce_timer(&mut provider));
    let post = port_view(&port);
    assert!(instance_view(lock.peek()) == inst);

    if pre.tag != 2 {
        // C08: Announce only by ports in the master state; the provider is not even consulted
        assert!(post == pre && actions.n == 0 && provider.offered == 0);
        return (0, 0, false, 0);
    }
    let id = pre.seq[0];
    let mut want = pre;
    want.seq[0] = id.wrapping_add(1);
    assert!(post == want);
    assert!(actions.n == 2 && actions.n_reset_announce == 1 && actions.n_send_general == 1 && actions.n_send_event == 0);
    let f = actions.general.unwrap();
    let (h, body, tlv_len) = msg::last_serialized();
    assert!(!f.link_local && f.len == 64 + tlv_len && f.len <= MAX_DATA_LEN);
    assert!(h.sequence_id == id && h.source_port_identity == own);
    assert!(h.sdo_id == inst.default_ds.sdo_id && h.domain_number == inst.default_ds.domain_number);
    // ---- C11: the Announce carries the current data sets ----
    let a = match body { crate::datastructures::messages::MessageBody::Announce(a) => a, _ => { assert!(false); return (0, 0, false, 0); } };
    let tp = inst.time_properties_ds;
    assert!(a.current_utc_offset == tp.current_utc_offset.unwrap_or_default());
    assert!(a.grandmaster_priority_1 == inst.parent_ds.grandmaster_priority_1);
    assert!(a.grandmaster_clock_quality == inst.parent_ds.grandmaster_clock_quality);
    assert!(a.grandmaster_priority_2 == inst.parent_ds.grandmaster_priority_2);
    assert!(a.grandmaster_identity == inst.parent_ds.grandmaster_identity);
    assert!(a.steps_removed == inst.current_ds.steps_removed);
    assert!(a.time_source == tp.time_source);
    use crate::config::LeapIndicator;
    assert!(h.leap61 == (tp.leap_indicator == LeapIndicator::Leap61));
    assert!(h.leap59 == (tp.leap_indicator == LeapIndicator::Leap59));
    assert!(h.current_utc_offset_valid == tp.current_utc_offset.is_some());
    assert!(h.ptp_timescale == tp.ptp_timescale);
    assert!(h.time_tracable == tp.time_traceable);
    assert!(h.frequency_tracable == tp.frequency_traceable);
    // the header embedded in the body is the message header
    assert!(a.header == h);
    // ---- C15: room accounting ----
    let own_path_tlv = if path_enable && path_len < 128 && 4 + 8 * (path_len + 1) < 960 { 4 + 8 * (path_len + 1) } else { 0 };
    let mut forwarded = 0;
    let mut i = 0;
    while i < K_TLV {
        if i < provider.offered {
            // "appended to the next Announce that has room for it": the provider is asked with exactly the room
            // that is left -- TLVs that are skipped (other sender, PATH_TRACE) do not use up room
            assert!(provider.max_seen[i] == MAX_DATA_LEN - 64 - own_path_tlv - forwarded);
            // the provider honoured max_size; a forwarded TLV is from the parent and not a PATH_TRACE when we add our own
            let fwd = provider.from_parent[i] && !(path_enable && provider.types[i] == 0x0008);
            if fwd { forwarded += provider.sizes[i]; }
        }
        i += 1;
    }
    assert!(f.len == 64 + own_path_tlv + forwarded);
    // the call that ended the forwarding loop was made with exactly the room left, too (in particular the very
    // first call when nothing is forwarded: 1024 - 64 - the whole own PATH_TRACE TLV incl. its 4-octet header)
    if let Some(m) = provider.last_max { assert!(m == MAX_DATA_LEN - 64 - own_path_tlv - forwarded); }
    (provider.offered, forwarded, provider.offered >= 1 && provider.sizes[0] == provider.max_seen[0], own_path_tlv)
}

/// quick instance: no forwarded TLVs, path trace off -- the Announce *contents* clause of C11 and the guards
#[kani::proof]
#[kani::unwind(34)]
#[kani::stub(PortActionIterator::from, PortActionIterator::verif_recording_from)]
#[kani::stub(Message::serialize, Message::verif_recording_serialize)]
#[kani::stub(TlvSetBuilder::add, TlvSetBuilder::verif_contract_add)]
#[kani::stub(crate::time::Interval::as_core_duration, stub_as_core_duration)]
fn c11_send_announce_contents() {
    let r = announce_tx(0, false);
    kani::cover!(r.0 == 0);
}

/// no forwarded TLVs, path trace on: own PATH_TRACE TLV (stored path ++ own identity) and the lock discipline of that branch
#[kani::proof]
#[kani::unwind(34)]
#[kani::stub(PortActionIterator::from, PortActionIterator::verif_recording_from)]
#[kani::stub(Message::serialize, Message::verif_recording_serialize)]
#[kani::stub(TlvSetBuilder::add, TlvSetBuilder::verif_contract_add)]
#[kani::stub(crate::time::Interval::as_core_duration, stub_as_core_duration)]
fn c15_send_announce_own_path_trace() {
    let r = announce_tx(0, true);
    kani::cover!(r.3 > 0);
}

/// BOUND K = 2 forwarded TLVs, path trace off: sender filter and exact room accounting across skipped TLVs
#[kani::proof]
#[kani::unwind(34)]
#[kani::stub(PortActionIterator::from, PortActionIterator::verif_recording_from)]
#[kani::stub(Message::serialize, Message::verif_recording_serialize)]
#[kani::stub(TlvSetBuilder::add, TlvSetBuilder::verif_contract_add)]
#[kani::stub(crate::time::Interval::as_core_duration, stub_as_core_duration)]
fn c15_send_announce_two_tlvs() {
    let r = announce_tx(2, false);
    kani::cover!(r.0 == 2 && r.1 > 0);
    kani::cover!(r.2);
}

/// one forwarded TLV, path trace on
#[kani::proof]
#[kani::unwind(34)]
#[kani::stub(PortActionIterator::from, PortActionIterator::verif_recording_from)]
#[kani::stub(Message::serialize, Message::verif_recording_serialize)]
#[kani::stub(TlvSetBuilder::add, TlvSetBuilder::verif_contract_add)]
#[kani::stub(crate::time::Interval::as_core_duration, stub_as_core_duration)]
fn c15_send_announce_one_tlv() {
    let r = announce_tx(1, true);
    kani::cover!(r.0 == 1 && r.1 > 0);
    kani::cover!(r.2); // a TLV that exactly fills the remaining room
    kani::cover!(r.3 > 0);
}

/// BOUND K = 2 forwarded TLVs, path trace on
#[kani::proof]
#[kani::unwind(34)]
#[kani::stub(PortActionIterator::from, PortActionIterator::verif_recording_from)]
#[kani::stub(Message::serialize, Message::verif_recording_serialize)]
#[kani::stub(TlvSetBuilder::add, TlvSetBuilder::verif_contract_add)]
#[kani::stub(crate::time::Interval::as_core_duration, stub_as_core_duration)]
fn c15_send_announce_with_any_provider() {
    let r = announce_tx(2, true);
    kani::cover!(r.0 == 2 && r.1 > 0);
    kani::cover!(r.2);
    kani::cover!(r.3 > 0);
}


/// a provider that offers one small TLV (4-octet value; PATH_TRACE or another propagated type) from an arbitrary sender, once
struct OneSmallTlv { buf: [u8; 4], done: bool, parent: PortIdentity, offered: usize }
impl ForwardedTLVProvider for OneSmallTlv {
    fn next_if_smaller(&mut self, max_size: usize) -> Option<ForwardedTLV<'_>> {
        if self.done || max_size < 8 { return None; }
        self.done = true;
        self.offered += 1;
        // PATH_TRACE (dropped when path trace is on) or an ordinary propagated TLV (ALTERNATE_TIME_OFFSET_INDICATOR)
        let ty: u16 = if kani::any() { 0x0008 } else { 0x0009 };
        let sender = if kani::any() { self.parent } else { any_port_identity() };
        Some(ForwardedTLV { tlv: Tlv { tlv_type: TlvType::from_primitive(ty), value: (&self.buf[..]).into() }, sender_identity: sender })
    }
}

/// C17 only: lock discipline of send_announce with path trace on or off and a provider that yields one TLV -- the
/// branch in which the TLV loop and the per-TLV parent lookup run. Only ChkLock's own assertions (acquisition
/// depth 0 inside every with_ref / with_mut), "no write acquisition" and "two actions" are checked here; the
/// contents are the business of c15_send_announce_one_tlv (thorough). Port fixed to MASTER.
#[kani::proof]
#[kani::unwind(34)]
#[kani::stub(PortActionIterator::from, PortActionIterator::verif_recording_from)]
#[kani::stub(Message::serialize, Message::verif_recording_serialize)]
#[kani::stub(TlvSetBuilder::add, TlvSetBuilder::verif_contract_add)]
#[kani::stub(crate::time::Interval::as_core_duration, stub_as_core_duration)]
fn c17_send_announce_lock_discipline_with_tlv() {
    let inst0 = any_instance_state(1);
    let lock = ChkLock::new(inst0);
    mk_port!(port, &lock, PortState::Master, Running);
    let parent = lock.peek().parent_ds.parent_port_identity;
    let mut provider = OneSmallTlv { buf: [0x5a; 4], done: false, parent, offered: 0 };
    lock.reset_counters();
    let actions = run_actions!(port.handle_announce_timer(&mut provider));
    assert!(lock.n_mut.get() == 0);
    assert!(actions.n == 2);
    kani::cover!(provider.offered == 1 && lock.peek().path_trace_ds.enable);
    kani::cover!(provider.offered == 1 && !lock.peek().path_trace_ds.enable);
}
