//! Shared infrastructure for all port-level units (child module of `port`: sees Port's private fields
//! and the pub(super) handlers of port::{slave, master, bmca}).
//!
//! * contract-abiding abstractions of the public traits: RecFilter, RecClock, AnyRng, ChkLock, AnyAccept
//! * generators of arbitrary valid states: any_port(), any_instance_state(), ...
//! * views (plain comparable copies of the complete observable state) used for frame conditions
#![allow(dead_code, unused_imports, missing_docs, static_mut_refs)]
use core::cell::{Cell, UnsafeCell};

use arrayvec::ArrayVec;
use fixed::types::{I96F32, U96F32};

use super::super::state::{DelayState, PortState, SlaveState, SyncState};
use super::super::*;
use crate::bmc::acceptable_master::AcceptableMasterList;
use crate::config::{ClockIdentity, DelayMechanism, PtpMinorVersion, TimePropertiesDS};
use crate::datastructures::common::{LeapIndicator, TimeInterval, WireTimestamp};
use crate::datastructures::datasets::{InternalCurrentDS, InternalDefaultDS, InternalParentDS, PathTraceDS};
use crate::datastructures::messages::Header;
use crate::filters::{FilterEstimate, FilterUpdate};
use crate::time::Interval;
use crate::verif_gen::*;

// ------------------------------------------------------------------------------------------------
// C17: a lock that detects nested acquisition. A guard cannot outlive a call (closure scoped), so
// "depth == 0 on entry of every acquisition, for every operation from every valid state" is the
// all-histories statement of "never locked re-entrantly".
// ------------------------------------------------------------------------------------------------
pub(crate) struct ChkLock {
    state: UnsafeCell<PtpInstanceState>,
    depth: Cell<u32>,
    pub(crate) n_ref: Cell<u32>,
    pub(crate) n_mut: Cell<u32>,
}

impl ChkLock {
    pub(crate) fn peek(&self) -> &PtpInstanceState {
        // harness-only observation outside any library call
        assert!(self.depth.get() == 0);
        unsafe { &*self.state.get() }
    }
    pub(crate) fn peek_mut(&self) -> &mut PtpInstanceState {
        assert!(self.depth.get() == 0);
        unsafe { &mut *self.state.get() }
    }
    pub(crate) fn reset_counters(&self) {
        self.n_ref.set(0);
        self.n_mut.set(0);
    }
}

impl PtpInstanceStateMutex for ChkLock {
    fn new(state: PtpInstanceState) -> Self {
        ChkLock { state: UnsafeCell::new(state), depth: Cell::new(0), n_ref: Cell::new(0), n_mut: Cell::new(0) }
    }
    fn with_ref<R, F: FnOnce(&PtpInstanceState) -> R>(&self, f: F) -> R {
        assert!(self.depth.get() == 0); // C17: instance-state lock requested while already held
        self.depth.set(1);
        self.n_ref.set(self.n_ref.get().wrapping_add(1));
        let r = f(unsafe { &*self.state.get() });
        self.depth.set(0);
        r
    }
    fn with_mut<R, F: FnOnce(&mut PtpInstanceState) -> R>(&self, f: F) -> R {
        assert!(self.depth.get() == 0); // C17: instance-state lock requested while already held
        self.depth.set(1);
        self.n_mut.set(self.n_mut.get().wrapping_add(1));
        let r = f(unsafe { &mut *self.state.get() });
        self.depth.set(0);
        r
    }
}

// ------------------------------------------------------------------------------------------------
// recording clock: any clock honouring the documented contract (may fail at any call)
// ------------------------------------------------------------------------------------------------
#[derive(Clone, Copy, PartialEq, Debug)]
pub(crate) struct RecClock {
    pub(crate) n_step: u32,
    pub(crate) n_freq: u32,
    pub(crate) n_props: u32,
    pub(crate) last_step_bits: i128,
    pub(crate) last_freq_bits: u64,
}

impl RecClock {
    pub(crate) fn new() -> Self {
        RecClock { n_step: 0, n_freq: 0, n_props: 0, last_step_bits: 0, last_freq_bits: 0 }
    }
    pub(crate) fn touched(&self) -> bool {
        self.n_step != 0 || self.n_freq != 0 || self.n_props != 0
    }
}

impl Clock for RecClock {
    type Error = ();
    fn now(&self) -> Time {
        any_time()
    }
    fn step_clock(&mut self, offset: Duration) -> Result<Time, ()> {
        self.n_step = self.n_step.wrapping_add(1);
        self.last_step_bits = offset.nanos().to_bits();
        if kani::any() { Ok(any_time()) } else { Err(()) }
    }
    fn set_frequency(&mut self, ppm: f64) -> Result<Time, ()> {
        self.n_freq = self.n_freq.wrapping_add(1);
        self.last_freq_bits = ppm.to_bits();
        if kani::any() { Ok(any_time()) } else { Err(()) }
    }
    fn set_properties(&mut self, _t: &TimePropertiesDS) -> Result<(), ()> {
        self.n_props = self.n_props.wrapping_add(1);
        if kani::any() { Ok(()) } else { Err(()) }
    }
}

// ------------------------------------------------------------------------------------------------
// recording filter: records what the port hands to it; answers are arbitrary
// ------------------------------------------------------------------------------------------------
pub(crate) static mut N_FILTER_NEW: u32 = 0;
pub(crate) static mut N_FILTER_DEMOBILIZE: u32 = 0;
/// measurement calls the demobilized filter had seen (to tell which filter instance was dropped)
pub(crate) static mut DEMOBILIZED_SERIAL: u32 = 0;

#[derive(Clone, Copy, PartialEq, Debug)]
pub(crate) struct RecFilter {
    pub(crate) serial: u32,
    pub(crate) n_meas: u32,
    pub(crate) n_update: u32,
    pub(crate) last: Option<Measurement>,
}

impl Filter for RecFilter {
    type Config = ();
    fn new(_c: ()) -> Self {
        let serial = unsafe {
            N_FILTER_NEW = N_FILTER_NEW.wrapping_add(1);
            N_FILTER_NEW
        };
        RecFilter { serial, n_meas: 0, n_update: 0, last: None }
    }
    fn measurement<C: Clock>(&mut self, m: Measurement, _clock: &mut C) -> FilterUpdate {
        self.n_meas = self.n_meas.wrapping_add(1);
        self.last = Some(m);
        any_filter_update()
    }
    fn update<C: Clock>(&mut self, _clock: &mut C) -> FilterUpdate {
        self.n_update = self.n_update.wrapping_add(1);
        any_filter_update()
    }
    fn demobilize<C: Clock>(self, _clock: &mut C) {
        unsafe {
            N_FILTER_DEMOBILIZE = N_FILTER_DEMOBILIZE.wrapping_add(1);
            DEMOBILIZED_SERIAL = self.serial;
        }
    }
    fn current_estimates(&self) -> FilterEstimate {
        FilterEstimate { offset_from_master: any_duration(), mean_delay: any_duration() }
    }
}

pub(crate) fn any_filter_update() -> FilterUpdate {
    FilterUpdate {
        next_update: if kani::any() { Some(core::time::Duration::from_secs(kani::any())) } else { None },
        mean_delay: if kani::any() { Some(any_duration()) } else { None },
    }
}

// ------------------------------------------------------------------------------------------------
// arbitrary random number generator
// ------------------------------------------------------------------------------------------------
#[derive(Clone, Copy, PartialEq, Debug)]
pub(crate) struct AnyRng {
    pub(crate) draws: u32,
}
impl rand::RngCore for AnyRng {
    fn next_u32(&mut self) -> u32 {
        self.draws = self.draws.wrapping_add(1);
        kani::any()
    }
    fn next_u64(&mut self) -> u64 {
        self.draws = self.draws.wrapping_add(1);
        kani::any()
    }
    fn fill_bytes(&mut self, dest: &mut [u8]) {
        self.draws = self.draws.wrapping_add(1);
        let mut i = 0;
        while i < dest.len() {
            dest[i] = kani::any();
            i += 1;
        }
    }
    fn try_fill_bytes(&mut self, dest: &mut [u8]) -> Result<(), rand::Error> {
        self.fill_bytes(dest);
        Ok(())
    }
}

// ------------------------------------------------------------------------------------------------
// acceptable-master list: accept all / exactly one identity / none (functional per identity)
// ------------------------------------------------------------------------------------------------
#[derive(Clone, Copy, PartialEq, Debug)]
pub(crate) struct AnyAccept {
    pub(crate) mode: u8,
    pub(crate) only: ClockIdentity,
}
impl AcceptableMasterList for AnyAccept {
    fn is_acceptable(&self, identity: ClockIdentity) -> bool {
        match self.mode {
            0 => true,
            1 => identity == self.only,
            _ => false,
        }
    }
}
pub(crate) fn any_accept() -> AnyAccept {
    let mode: u8 = kani::any();
    kani::assume(mode < 3);
    AnyAccept { mode, only: any_clock_identity() }
}

// ------------------------------------------------------------------------------------------------
// value generators
// ------------------------------------------------------------------------------------------------
/// every host timestamp in [0, 2^64 ns) with an arbitrary 2^-32 ns fraction
pub(crate) fn any_time() -> Time {
    let b: u128 = kani::any();
    kani::assume(b < (1u128 << 96));
    time_from_bits(b)
}
/// host timestamps of "a realistic clock": [2^48 ns, 2^63 ns) -- about 3.3 days .. 292 years after the epoch
pub(crate) fn any_realistic_time() -> Time {
    let b: u128 = kani::any();
    kani::assume(b >= (1u128 << 80) && b < (1u128 << 95));
    time_from_bits(b)
}
pub(crate) fn time_bits(t: Time) -> u128 {
    crate::time::verif_time::time_bits(t)
}
pub(crate) fn dur_bits(d: Duration) -> i128 {
    crate::time::verif_time::dur_bits(d)
}
pub(crate) fn dur_from_bits(b: i128) -> Duration {
    crate::time::verif_time::dur_from_bits(b)
}
pub(crate) fn time_from_bits(b: u128) -> Time {
    crate::time::verif_time::time_from_bits(b)
}
/// any duration the library can produce from wire values and host timestamps: |d| < 2^66 ns
pub(crate) fn any_duration() -> Duration {
    let b: i128 = kani::any();
    kani::assume(b > -(1i128 << 98) && b < (1i128 << 98));
    dur_from_bits(b)
}
pub(crate) fn any_opt_duration() -> Option<Duration> {
    if kani::any() { Some(any_duration()) } else { None }
}
pub(crate) fn any_opt_time() -> Option<Time> {
    if kani::any() { Some(any_time()) } else { None }
}
pub(crate) fn any_interval() -> Interval {
    Interval::from_log_2(kani::any())
}
pub(crate) fn any_delay_mechanism() -> DelayMechanism {
    if kani::any() { DelayMechanism::E2E { interval: any_interval() } } else { DelayMechanism::P2P { interval: any_interval() } }
}
pub(crate) fn any_minor_version() -> PtpMinorVersion {
    if kani::any() { PtpMinorVersion::Zero } else { PtpMinorVersion::One }
}
/// asymmetry as configurable through the daemon: nanoseconds in i64
pub(crate) fn any_asymmetry() -> Duration {
    let ns: i64 = kani::any();
    dur_from_bits((ns as i128) << 32)
}
pub(crate) fn any_port_config() -> PortConfig<()> {
    PortConfig {
        acceptable_master_list: (),
        delay_mechanism: any_delay_mechanism(),
        announce_interval: any_interval(),
        announce_receipt_timeout: kani::any(),
        sync_interval: any_interval(),
        master_only: kani::any(),
        delay_asymmetry: any_asymmetry(),
        minor_ptp_version: any_minor_version(),
    }
}
pub(crate) fn any_leap() -> LeapIndicator {
    let c: u8 = kani::any();
    kani::assume(c < 3);
    match c { 0 => LeapIndicator::NoLeap, 1 => LeapIndicator::Leap61, _ => LeapIndicator::Leap59 }
}
pub(crate) fn any_time_properties() -> TimePropertiesDS {
    TimePropertiesDS {
        current_utc_offset: if kani::any() { Some(kani::any()) } else { None },
        leap_indicator: any_leap(),
        time_traceable: kani::any(),
        frequency_traceable: kani::any(),
        ptp_timescale: kani::any(),
        time_source: any_time_source(),
    }
}
pub(crate) fn any_default_ds() -> InternalDefaultDS {
    InternalDefaultDS {
        clock_identity: any_clock_identity(),
        number_ports: kani::any(),
        clock_quality: any_clock_quality(),
        priority_1: kani::any(),
        priority_2: kani::any(),
        domain_number: kani::any(),
        slave_only: kani::any(),
        sdo_id: any_sdo_id(),
    }
}
pub(crate) fn any_parent_ds() -> InternalParentDS {
    InternalParentDS {
        parent_port_identity: any_port_identity(),
        grandmaster_identity: any_clock_identity(),
        grandmaster_clock_quality: any_clock_quality(),
        grandmaster_priority_1: kani::any(),
        grandmaster_priority_2: kani::any(),
    }
}
/// path trace list with up to `k` arbitrary entries
pub(crate) fn any_path_trace(k: usize) -> PathTraceDS {
    let mut list = ArrayVec::new();
    let n: usize = kani::any();
    kani::assume(n <= k);
    let mut i = 0;
    while i < k {
        if i < n {
            list.push(any_clock_identity());
        }
        i += 1;
    }
    PathTraceDS { list, enable: kani::any() }
}
pub(crate) fn any_instance_state(path_k: usize) -> PtpInstanceState {
    PtpInstanceState {
        default_ds: any_default_ds(),
        current_ds: InternalCurrentDS { steps_removed: kani::any() },
        parent_ds: any_parent_ds(),
        path_trace_ds: any_path_trace(path_k),
        time_properties_ds: any_time_properties(),
    }
}

/// representation invariant of the exchange records: a completed pair never stays stored (every
/// handler that completes a pair hands it to the filter and clears it in the same call); each
/// handler harness proves that it re-establishes this (`slave_valid` / `peer_valid` on the post-state).
pub(crate) fn any_sync_state() -> SyncState {
    if kani::any() { SyncState::Empty } else {
        let send_time = any_opt_time();
        let recv_time = any_opt_time();
        kani::assume(!(send_time.is_some() && recv_time.is_some()));
        SyncState::Measuring { id: kani::any(), send_time, recv_time }
    }
}
pub(crate) fn any_delay_state() -> DelayState {
    if kani::any() { DelayState::Empty } else {
        let send_time = any_opt_time();
        let recv_time = any_opt_time();
        kani::assume(!(send_time.is_some() && recv_time.is_some()));
        DelayState::Measuring { id: kani::any(), send_time, recv_time }
    }
}
pub(crate) fn sync_valid(s: &SyncState) -> bool {
    !matches!(s, SyncState::Measuring { send_time: Some(_), recv_time: Some(_), .. })
}
pub(crate) fn delay_valid(s: &DelayState) -> bool {
    !matches!(s, DelayState::Measuring { send_time: Some(_), recv_time: Some(_), .. })
}
pub(crate) fn peer_valid(s: &PeerDelayState) -> bool {
    !matches!(s, PeerDelayState::Measuring { request_send_time: Some(_), request_recv_time: Some(_),
        response_send_time: Some(_), response_recv_time: Some(_), responder_identity: Some(_), .. })
}
pub(crate) fn any_slave_state() -> SlaveState {
    SlaveState {
        remote_master: any_port_identity(),
        sync_state: any_sync_state(),
        delay_state: any_delay_state(),
        last_raw_sync_offset: any_opt_duration(),
    }
}
pub(crate) fn any_peer_delay_state() -> PeerDelayState {
    let c: u8 = kani::any();
    kani::assume(c < 3);
    match c {
        0 => PeerDelayState::Empty,
        1 => PeerDelayState::Measuring {
            id: kani::any(),
            responder_identity: if kani::any() { Some(any_port_identity()) } else { None },
            request_send_time: any_opt_time(),
            request_recv_time: any_opt_time(),
            response_send_time: any_opt_time(),
            response_recv_time: any_opt_time(),
        },
        _ => PeerDelayState::PostMeasurement { id: kani::any(), responder_identity: any_port_identity() },
    }
}
pub(crate) fn any_valid_peer_delay_state() -> PeerDelayState {
    let s = any_peer_delay_state();
    kani::assume(peer_valid(&s));
    s
}
/// tag: 0 Faulty, 1 Listening, 2 Master, 3 Passive, 4 Slave
pub(crate) fn port_state_with_tag(tag: u8) -> PortState {
    match tag {
        0 => PortState::Faulty,
        1 => PortState::Listening,
        2 => PortState::Master,
        3 => PortState::Passive,
        _ => PortState::Slave(any_slave_state()),
    }
}
pub(crate) fn any_port_state() -> PortState {
    let tag: u8 = kani::any();
    kani::assume(tag < 5);
    port_state_with_tag(tag)
}
pub(crate) fn state_tag(s: &PortState) -> u8 {
    match s {
        PortState::Faulty => 0,
        PortState::Listening => 1,
        PortState::Master => 2,
        PortState::Passive => 3,
        PortState::Slave(_) => 4,
    }
}

pub(crate) type TPort<'a, L> = Port<'a, L, AnyAccept, AnyRng, RecClock, RecFilter, ChkLock>;

/// The real `Port` built *in place* by struct literal with every field arbitrary, under the
/// representation invariant `valid()`: the BMCA's own identity is the port's identity, no completed
/// exchange is left stored.  (A macro, not a function: moving a Port moves the 16 KiB foreign-master
/// table, which costs CBMC ~8 s of symbolic execution per move.)  The foreign-master list starts
/// empty here; units that depend on its content fill it through the bmc generators.
macro_rules! mk_port {
    ($port:ident, $lock:expr, $state:expr, $lifecycle:expr) => {
        let port_identity__ = any_port_identity();
        // ManuallyDrop: the drop glue of a Port (foreign-master table) is not part of any property and costs symex time
        let mut $port: core::mem::ManuallyDrop<Port<'_, _, AnyAccept, AnyRng, RecClock, RecFilter, _>> = core::mem::ManuallyDrop::new(Port {
            config: any_port_config(),
            filter_config: (),
            clock: RecClock::new(),
            port_identity: port_identity__,
            port_state: $state,
            instance_state: $lock,
            bmca: Bmca::new(any_accept(), any_time_interval(), port_identity__),
            packet_buffer: [0; MAX_DATA_LEN],
            lifecycle: $lifecycle,
            rng: AnyRng { draws: 0 },
            multiport_disable: any_opt_duration(),
            announce_seq_ids: crate::port::sequence_id::verif_seq::any_seq_gen(),
            sync_seq_ids: crate::port::sequence_id::verif_seq::any_seq_gen(),
            delay_seq_ids: crate::port::sequence_id::verif_seq::any_seq_gen(),
            pdelay_seq_ids: crate::port::sequence_id::verif_seq::any_seq_gen(),
            filter: RecFilter { serial: 0, n_meas: 0, n_update: 0, last: None },
            mean_delay: any_opt_duration(),
            peer_delay_state: any_valid_peer_delay_state(),
        });
    };
}
pub(crate) use mk_port;

// ------------------------------------------------------------------------------------------------
// views: complete copies of the observable state, comparable with ==
// ------------------------------------------------------------------------------------------------
#[derive(Clone, Copy, PartialEq, Debug)]
pub(crate) struct SlaveView {
    pub(crate) remote_master: PortIdentity,
    pub(crate) sync_state: SyncState,
    pub(crate) delay_state: DelayState,
    pub(crate) last_raw_sync_offset: Option<Duration>,
}
#[derive(Clone, Copy, PartialEq, Debug)]
pub(crate) struct PortView {
    pub(crate) tag: u8,
    pub(crate) slave: Option<SlaveView>,
    pub(crate) peer: PeerDelayState,
    pub(crate) mean_delay: Option<Duration>,
    pub(crate) multiport_disable: Option<Duration>,
    pub(crate) seq: [u16; 4],
    pub(crate) filter: RecFilter,
    pub(crate) clock: RecClock,
    pub(crate) rng: AnyRng,
    pub(crate) n_filter_new: u32,
    pub(crate) n_filter_demobilize: u32,
    /// digest of the foreign-master table: (records, messages in the first two records)
    pub(crate) fm: (usize, usize),
}
#[derive(Clone, PartialEq, Debug)]
pub(crate) struct InstanceView {
    pub(crate) default_ds: InternalDefaultDS,
    pub(crate) current_ds: InternalCurrentDS,
    pub(crate) parent_ds: InternalParentDS,
    pub(crate) time_properties_ds: TimePropertiesDS,
    pub(crate) path_enable: bool,
    pub(crate) path_len: usize,
    pub(crate) path0: Option<ClockIdentity>,
    pub(crate) path1: Option<ClockIdentity>,
}

pub(crate) fn slave_view(s: &SlaveState) -> SlaveView {
    SlaveView {
        remote_master: s.remote_master,
        sync_state: s.sync_state,
        delay_state: s.delay_state,
        last_raw_sync_offset: s.last_raw_sync_offset,
    }
}
pub(crate) fn port_view<L>(p: &TPort<'_, L>) -> PortView {
    PortView {
        tag: state_tag(&p.port_state),
        slave: match &p.port_state { PortState::Slave(s) => Some(slave_view(s)), _ => None },
        peer: p.peer_delay_state,
        mean_delay: p.mean_delay,
        multiport_disable: p.multiport_disable,
        seq: [
            crate::port::sequence_id::verif_seq::peek(&p.announce_seq_ids),
            crate::port::sequence_id::verif_seq::peek(&p.sync_seq_ids),
            crate::port::sequence_id::verif_seq::peek(&p.delay_seq_ids),
            crate::port::sequence_id::verif_seq::peek(&p.pdelay_seq_ids),
        ],
        filter: p.filter,
        clock: p.clock,
        rng: p.rng,
        n_filter_new: unsafe { N_FILTER_NEW },
        n_filter_demobilize: unsafe { N_FILTER_DEMOBILIZE },
        fm: fm_digest(&p.bmca),
    }
}
pub(crate) fn fm_digest<A>(b: &Bmca<A>) -> (usize, usize) {
    let l = crate::bmc::bmca::verif_bmca::fm_list(b);
    (crate::bmc::foreign_master::verif_fm::n_masters(l), crate::bmc::foreign_master::verif_fm::total_messages(l, 2))
}
pub(crate) fn instance_view(s: &PtpInstanceState) -> InstanceView {
    InstanceView {
        default_ds: s.default_ds,
        current_ds: s.current_ds,
        parent_ds: s.parent_ds.clone(),
        time_properties_ds: s.time_properties_ds,
        path_enable: s.path_trace_ds.enable,
        path_len: s.path_trace_ds.list.len(),
        path0: s.path_trace_ds.list.get(0).copied(),
        path1: s.path_trace_ds.list.get(1).copied(),
    }
}

// ------------------------------------------------------------------------------------------------
// action summaries: recorded at construction (see kani/src/actions.rs), frames read back by an independent
// Clause-13 reader
// ------------------------------------------------------------------------------------------------
pub(crate) use super::super::actions::verif_act::{ActionSummary, Frame};
pub(crate) use super::super::actions::verif_act as act;

pub(crate) use crate::datastructures::messages::verif_kani_msg as msg;
use crate::datastructures::messages::MessageBody;

/// Clause 13: 34-octet header + body size of the message type (Table 36 codes)
pub(crate) fn spec_frame_size(message_type: u8) -> usize {
    match message_type { 0x0 | 0x1 | 0x8 => 44, 0x2 | 0x3 | 0x9 | 0xa => 54, 0xb => 64, 0xc => 44, 0xd => 48, _ => 0 }
}
pub(crate) fn body_type(b: &MessageBody) -> u8 {
    match b {
        MessageBody::Sync(_) => 0x0, MessageBody::DelayReq(_) => 0x1, MessageBody::PDelayReq(_) => 0x2,
        MessageBody::PDelayResp(_) => 0x3, MessageBody::FollowUp(_) => 0x8, MessageBody::DelayResp(_) => 0x9,
        MessageBody::PDelayRespFollowUp(_) => 0xa, MessageBody::Announce(_) => 0xb, MessageBody::Signaling(_) => 0xc,
        MessageBody::Management(_) => 0xd,
    }
}
/// the one message serialized during the call: it has the expected type, no TLVs, PTP version 2, and the emitted
/// frame has exactly its wire size (<= MAX_DATA_LEN) -- by the C04 contracts such a frame decodes under the
/// library's own parser to this message
pub(crate) fn emitted_message(f: &Frame, message_type: u8) -> (Header, MessageBody) {
    let (h, b, tlv_len) = msg::last_serialized();
    assert!(body_type(&b) == message_type && tlv_len == 0);
    assert!(f.len == spec_frame_size(message_type) && f.len <= MAX_DATA_LEN);
    (h, b)
}

/// run a handler and return the summary of the action list it built and returned
macro_rules! run_actions {
    ($call:expr) => {{
        act::begin();
        msg::reset_serialized();
        let it = $call;
        act::taken(it)
    }};
}
pub(crate) use run_actions;
