//! C09 / C14 unit "slave": handlers of Sync, Follow_Up, Delay_Req timestamp, Delay_Resp and the
//! peer-delay exchange, each against a specification transition function on plain views, written from
//! IEEE 1588-2019 11.2 (offset), 11.3 (E2E delay), 11.4 (peer delay), 11.6 (asymmetry).
//!
//! Shape of every contract:   post_view == spec_step(pre_view, input)   (complete state, so it is
//! also the frame condition), measurement handed to the filter == spec formula on *this* exchange,
//! representation invariant (no completed pair left stored) re-established.
#![allow(dead_code, unused_imports, missing_docs, static_mut_refs)]
use super::common::*;
use super::super::state::{DelayState, PortState, SlaveState, SyncState};
use super::super::*;
use crate::datastructures::common::{TimeInterval, WireTimestamp};
use crate::datastructures::messages::{
    DelayRespMessage, FollowUpMessage, Header, Message, MessageBody, PDelayRespFollowUpMessage, PDelayRespMessage, SyncMessage,
};
use crate::time::Interval;
use crate::verif_gen::*;

// ---------------------------------------------------------------------------------------------
// Kani-side stand-ins for leaf contracts guaranteed elsewhere (cross-tool assume/guarantee):
//  * `Duration / 2` and `/ 2.0` are the only divisions on the measurement path (guarded textually by
//    the driver); Verus unit "time" proves  bits' = tdiv(bits * 2^32, rhs.scaled(32)); with
//    scaled(2) = 2^33 that is bits / 2, truncating. CBMC cannot decide 128-bit fixed-point division.
//  * timer durations go through powi/from_secs_f64/mul_f64 (inexact or very slow in CBMC): the
//    *values* of timer durations are never part of a Kani verdict, only which timer is requested.
// ---------------------------------------------------------------------------------------------
pub(crate) fn stub_div_by_two<TF: fixed::traits::ToFixed>(d: Duration, _rhs: TF) -> Duration {
    dur_from_bits(dur_bits(d) / 2)
}
pub(crate) fn stub_as_core_duration(_i: Interval) -> core::time::Duration {
    core::time::Duration::from_secs(kani::any::<u32>() as u64)
}
pub(crate) fn stub_mul_f64(_d: core::time::Duration, _f: f64) -> core::time::Duration {
    core::time::Duration::from_secs(kani::any::<u32>() as u64)
}
pub(crate) fn stub_announce_duration<A, R: rand::Rng>(_c: &PortConfig<A>, rng: &mut R) -> core::time::Duration {
    // the real function draws exactly one sample
    let _ = rng.next_u64();
    core::time::Duration::from_secs(kani::any::<u32>() as u64)
}

/// wire timestamp -> Time bits. The exact formula ((s * 10^9 + ns) * 2^32) is the Verus contract of
/// `Time::from(WireTimestamp)`; the real function is used so CBMC compares identical circuits.
fn spec_time_of_wire(w: WireTimestamp) -> u128 {
    time_bits(Time::from(w))
}
/// correction field (2^-16 ns) -> Duration bits (2^-32 ns)
fn spec_corr(c: TimeInterval) -> i128 {
    (c.0.to_bits() as i128) << 16
}
fn t(b: u128) -> Time {
    time_from_bits(b)
}
fn d(b: i128) -> Duration {
    dur_from_bits(b)
}

/// what a conforming master puts on the wire: 48-bit seconds, nanoseconds < 10^9; and (C09's "realistic
/// clock") a master time of at least 2^48 ns so that a negative correction cannot drive it below zero
fn realistic_wire(w: WireTimestamp) -> bool {
    w.nanos < 1_000_000_000 && w.seconds < (1u64 << 48) && w.seconds >= (1u64 << 19)
}

fn sync_complete(s: &SyncState) -> Option<(u128, u128)> {
    match s {
        SyncState::Measuring { send_time: Some(a), recv_time: Some(b), .. } => Some((time_bits(*a), time_bits(*b))),
        _ => None,
    }
}
fn delay_complete(s: &DelayState) -> Option<(u128, u128)> {
    match s {
        DelayState::Measuring { send_time: Some(a), recv_time: Some(b), .. } => Some((time_bits(*a), time_bits(*b))),
        _ => None,
    }
}

/// Specification of measurement extraction on a view (applied after the handler-specific update):
/// at most one exchange is complete (representation invariant); it is consumed exactly once and yields
///   11.2:  raw_sync = (t2 - corrections) - t1 - asymmetry ; offset = raw_sync - meanDelay
///   11.3:  raw_delay = t3 - (t4 - corrections) - asymmetry ; meanDelay = (raw_sync - raw_delay) / 2
///   11.4:  meanLinkDelay = ((t4 - t1) - (t3 - t2)) / 2
fn spec_extract(v: &mut PortView, asym: i128) -> Option<Measurement> {
    if let PeerDelayState::Measuring {
        id,
        responder_identity: Some(resp),
        request_send_time: Some(t1),
        request_recv_time: Some(t2),
        response_send_time: Some(t3),
        response_recv_time: Some(t4),
    } = v.peer
    {
        let link = ((time_bits(t4) as i128 - time_bits(t1) as i128) - (time_bits(t3) as i128 - time_bits(t2) as i128)) / 2;
        v.peer = PeerDelayState::PostMeasurement { id, responder_identity: resp };
        if v.tag == 0 {
            // recovery from Faulty after a single-responder exchange: Listening, fresh filter
            v.tag = 1;
            v.n_filter_new += 1;
            v.n_filter_demobilize += 1;
        }
        return Some(Measurement { event_time: t4, peer_delay: Some(d(link)), ..Default::default() });
    }
    if v.tag != 4 {
        return None;
    }
    let mut s = v.slave.unwrap();
    let mut out = None;
    if let Some((t1, t2c)) = sync_complete(&s.sync_state) {
        let raw = t2c as i128 - t1 as i128 - asym;
        out = Some(Measurement {
            event_time: t(t2c),
            raw_sync_offset: Some(d(raw)),
            offset: v.mean_delay.map(|m| d(raw - dur_bits(m))),
            ..Default::default()
        });
        s.last_raw_sync_offset = Some(d(raw));
        s.sync_state = SyncState::Empty;
    } else if let Some((t3, t4c)) = delay_complete(&s.delay_state) {
        let raw = t3 as i128 - t4c as i128 - asym;
        out = Some(Measurement {
            event_time: t(t3),
            raw_delay_offset: Some(d(raw)),
            delay: s.last_raw_sync_offset.map(|r| d((dur_bits(r) - raw) / 2)),
            ..Default::default()
        });
        s.delay_state = DelayState::Empty;
    }
    v.slave = Some(s);
    out
}

/// compare the post-state with the specification's expectation; `meas` is what must have reached the filter
fn check_against_spec(pre: &PortView, mut want: PortView, meas: Option<Measurement>, post: &PortView, actions: &ActionSummary) {
    match meas {
        Some(m) => {
            // exactly one measurement, with exactly the specified values
            assert!(post.filter.last == Some(m));
            if want.n_filter_new == pre.n_filter_new {
                want.filter = RecFilter { n_meas: pre.filter.n_meas + 1, last: Some(m), ..pre.filter };
            } else {
                // Faulty -> Listening recovery: the old filter is demobilized first, the measurement goes to the fresh one
                assert!(post.filter.serial != pre.filter.serial);
                want.filter = RecFilter { serial: post.filter.serial, n_meas: 1, n_update: 0, last: Some(m) };
            }
            // the filter may report a new mean delay and ask for an update timer; nothing else happens
            want.mean_delay = post.mean_delay;
            assert!(actions.n <= 1 && actions.n == actions.n_reset_filter_update);
        }
        None => {
            assert!(post.filter == pre.filter);
            assert!(actions.n == 0);
        }
    }
    assert!(post.tag == want.tag);
    assert!(post.slave == want.slave);
    assert!(post.peer == want.peer);
    assert!(*post == want);
    // representation invariant re-established
    if let Some(s) = post.slave {
        assert!(sync_valid(&s.sync_state) && delay_valid(&s.delay_state));
    }
    assert!(peer_valid(&post.peer));
    // the clock is reached only through the filter
    assert!(post.clock == pre.clock);
}

macro_rules! slave_setup {
    ($lock:ident, $port:ident) => {
        let $lock = ChkLock::new(any_instance_state(0));
        mk_port!($port, &$lock, PortState::Slave(any_slave_state()), Running);
    };
}

// ============================================================================================ C09
/// Sync (two-step): stored under its sequence id; completes only with a Follow_Up of the same id.
#[kani::proof]
#[kani::unwind(34)]
#[kani::stub(PortActionIterator::from, PortActionIterator::verif_recording_from)]
#[kani::stub(<Duration as core::ops::Div<i32>>::div, stub_div_by_two)]
#[kani::stub(<Duration as core::ops::Div<f64>>::div, stub_div_by_two)]
fn c09_sync_two_step() {
    slave_setup!(lock, port);
    let mut header = any_header();
    header.two_step_flag = true;
    let msg = SyncMessage { origin_timestamp: any_wire_timestamp() };
    let recv_time = any_realistic_time();
    let pre = port_view(&port);
    let pre_inst = instance_view(lock.peek());
    let asym = dur_bits(port.config.delay_asymmetry);

    let actions = run_actions!(port.handle_sync(header, msg, recv_time));
    let post = port_view(&port);
    assert!(instance_view(lock.peek()) == pre_inst);

    let mut want = pre;
    let mut s = pre.slave.unwrap();
    let mut meas = None;
    if s.remote_master == header.source_port_identity {
        let corrected = t((time_bits(recv_time) as i128 - spec_corr(header.correction_field)) as u128);
        match s.sync_state {
            SyncState::Measuring { id, recv_time: Some(_), .. } if id == header.sequence_id => {} // duplicate
            SyncState::Measuring { id, send_time, .. } if id == header.sequence_id => {
                s.sync_state = SyncState::Measuring { id, send_time, recv_time: Some(corrected) };
                want.slave = Some(s);
                meas = spec_extract(&mut want, asym);
            }
            _ => {
                // a new exchange replaces whatever was stored: timestamps of different ids never mix
                s.sync_state = SyncState::Measuring { id: header.sequence_id, send_time: None, recv_time: Some(corrected) };
                want.slave = Some(s);
            }
        }
    }
    check_against_spec(&pre, want, meas, &post, &actions);
    kani::cover!(meas.is_some());
    kani::cover!(s.remote_master != header.source_port_identity);
}

/// Sync (one-step): t1 is the originTimestamp of the same message.
#[kani::proof]
#[kani::unwind(34)]
#[kani::stub(PortActionIterator::from, PortActionIterator::verif_recording_from)]
#[kani::stub(<Duration as core::ops::Div<i32>>::div, stub_div_by_two)]
#[kani::stub(<Duration as core::ops::Div<f64>>::div, stub_div_by_two)]
fn c09_sync_one_step() {
    slave_setup!(lock, port);
    let mut header = any_header();
    header.two_step_flag = false;
    let msg = SyncMessage { origin_timestamp: any_wire_timestamp() };
    kani::assume(realistic_wire(msg.origin_timestamp));
    let recv_time = any_realistic_time();
    let pre = port_view(&port);
    let asym = dur_bits(port.config.delay_asymmetry);

    let actions = run_actions!(port.handle_sync(header, msg, recv_time));
    let post = port_view(&port);

    let mut want = pre;
    let mut s = pre.slave.unwrap();
    let mut meas = None;
    if s.remote_master == header.source_port_identity {
        let corrected = t((time_bits(recv_time) as i128 - spec_corr(header.correction_field)) as u128);
        match s.sync_state {
            SyncState::Measuring { id, .. } if id == header.sequence_id => {} // duplicate
            _ => {
                s.sync_state = SyncState::Measuring {
                    id: header.sequence_id,
                    send_time: Some(t(spec_time_of_wire(msg.origin_timestamp))),
                    recv_time: Some(corrected),
                };
                want.slave = Some(s);
                meas = spec_extract(&mut want, asym);
                assert!(meas.is_some());
            }
        }
    }
    check_against_spec(&pre, want, meas, &post, &actions);
    kani::cover!(meas.is_some());
}

/// Follow_Up: t1 = preciseOriginTimestamp + correctionField, paired with the Sync of the same id only.
#[kani::proof]
#[kani::unwind(34)]
#[kani::stub(PortActionIterator::from, PortActionIterator::verif_recording_from)]
#[kani::stub(<Duration as core::ops::Div<i32>>::div, stub_div_by_two)]
#[kani::stub(<Duration as core::ops::Div<f64>>::div, stub_div_by_two)]
fn c09_follow_up() {
    slave_setup!(lock, port);
    let header = any_header();
    let msg = FollowUpMessage { precise_origin_timestamp: any_wire_timestamp() };
    kani::assume(realistic_wire(msg.precise_origin_timestamp));
    let pre = port_view(&port);
    let pre_inst = instance_view(lock.peek());
    let asym = dur_bits(port.config.delay_asymmetry);

    let actions = run_actions!(port.handle_follow_up(header, msg));
    let post = port_view(&port);
    assert!(instance_view(lock.peek()) == pre_inst);

    let mut want = pre;
    let mut s = pre.slave.unwrap();
    let mut meas = None;
    if s.remote_master == header.source_port_identity {
        let t1 = t((spec_time_of_wire(msg.precise_origin_timestamp) as i128 + spec_corr(header.correction_field)) as u128);
        match s.sync_state {
            SyncState::Measuring { id, send_time: Some(_), .. } if id == header.sequence_id => {} // duplicate
            SyncState::Measuring { id, recv_time, .. } if id == header.sequence_id => {
                s.sync_state = SyncState::Measuring { id, send_time: Some(t1), recv_time };
                want.slave = Some(s);
                meas = spec_extract(&mut want, asym);
            }
            _ => {
                s.sync_state = SyncState::Measuring { id: header.sequence_id, send_time: Some(t1), recv_time: None };
                want.slave = Some(s);
            }
        }
    }
    check_against_spec(&pre, want, meas, &post, &actions);
    kani::cover!(meas.is_some());
}

/// transmit timestamp of a Delay_Req: accepted only for the request in flight (same id), once.
#[kani::proof]
#[kani::unwind(34)]
#[kani::stub(PortActionIterator::from, PortActionIterator::verif_recording_from)]
#[kani::stub(<Duration as core::ops::Div<i32>>::div, stub_div_by_two)]
#[kani::stub(<Duration as core::ops::Div<f64>>::div, stub_div_by_two)]
fn c09_delay_timestamp() {
    slave_setup!(lock, port);
    let id: u16 = kani::any();
    let ts = any_realistic_time();
    let pre = port_view(&port);
    let asym = dur_bits(port.config.delay_asymmetry);

    let actions = run_actions!(port.handle_delay_timestamp(id, ts));
    let post = port_view(&port);

    let mut want = pre;
    let mut s = pre.slave.unwrap();
    let mut meas = None;
    match s.delay_state {
        DelayState::Measuring { id: cur, send_time: None, recv_time } if cur == id => {
            s.delay_state = DelayState::Measuring { id: cur, send_time: Some(ts), recv_time };
            want.slave = Some(s);
            meas = spec_extract(&mut want, asym);
        }
        _ => {} // late, double or unrelated timestamp: no effect
    }
    check_against_spec(&pre, want, meas, &post, &actions);
    kani::cover!(meas.is_some());
}

/// Delay_Resp: only from the selected parent, only answering *our* request with the id in flight.
#[kani::proof]
#[kani::unwind(34)]
#[kani::stub(PortActionIterator::from, PortActionIterator::verif_recording_from)]
#[kani::stub(<Duration as core::ops::Div<i32>>::div, stub_div_by_two)]
#[kani::stub(<Duration as core::ops::Div<f64>>::div, stub_div_by_two)]
fn c09_delay_resp() {
    slave_setup!(lock, port);
    let header = any_header();
    let msg = DelayRespMessage { receive_timestamp: any_wire_timestamp(), requesting_port_identity: any_port_identity() };
    kani::assume(realistic_wire(msg.receive_timestamp));
    let pre = port_view(&port);
    let pre_inst = instance_view(lock.peek());
    let asym = dur_bits(port.config.delay_asymmetry);
    let own = port.port_identity;

    let actions = run_actions!(port.handle_delay_resp(header, msg));
    let post = port_view(&port);
    assert!(instance_view(lock.peek()) == pre_inst);

    let mut want = pre;
    let mut s = pre.slave.unwrap();
    let mut meas = None;
    if own == msg.requesting_port_identity && s.remote_master == header.source_port_identity {
        let t4 = t((spec_time_of_wire(msg.receive_timestamp) as i128 - spec_corr(header.correction_field)) as u128);
        match s.delay_state {
            DelayState::Measuring { id, send_time, recv_time: None } if id == header.sequence_id => {
                s.delay_state = DelayState::Measuring { id, send_time, recv_time: Some(t4) };
                want.slave = Some(s);
                meas = spec_extract(&mut want, asym);
            }
            _ => {}
        }
    }
    check_against_spec(&pre, want, meas, &post, &actions);
    kani::cover!(meas.is_some());
    kani::cover!(own != msg.requesting_port_identity);
}

/// Delay_Req emission: only a Slave port emits; fresh sequence id (+1 mod 2^16); the exchange record is
/// reset to that id; exactly one event send with the DelayReq context; the delay-request timer is re-armed.
#[kani::proof]
#[kani::unwind(34)]
#[kani::stub(PortActionIterator::from, PortActionIterator::verif_recording_from)]
#[kani::stub(crate::time::Interval::as_core_duration, stub_as_core_duration)]
#[kani::stub(core::time::Duration::mul_f64, stub_mul_f64)]
#[kani::stub(Message::serialize, Message::verif_recording_serialize)]
fn c09_send_e2e_delay_request() {
    let lock = ChkLock::new(any_instance_state(0));
    mk_port!(port, &lock, any_port_state(), Running);
    let interval = any_interval();
    port.config.delay_mechanism = crate::config::DelayMechanism::E2E { interval };
    let pre = port_view(&port);
    let pre_inst = instance_view(lock.peek());
    let own = port.port_identity;

    let actions = run_actions!(port.send_delay_request());
    let post = port_view(&port);
    assert!(instance_view(lock.peek()) == pre_inst);

    let mut want = pre;
    if pre.tag == 4 {
        let id = pre.seq[2];
        let mut s = pre.slave.unwrap();
        s.delay_state = DelayState::Measuring { id, send_time: None, recv_time: None };
        want.slave = Some(s);
        want.seq[2] = id.wrapping_add(1);
        want.rng = post.rng;
        assert!(post.rng.draws == pre.rng.draws + 1);
        assert!(post == want);
        // C12: re-arms its own timer; C10: exactly one event send
        assert!(actions.n == 2 && actions.n_reset_delay_req == 1 && actions.n_send_event == 1);
        assert!(actions.ctx_kind == 1 && actions.ctx_id == id);
        let f = actions.event.unwrap();
        let (h, _b) = emitted_message(&f, 0x1);
        assert!(!f.link_local && h.sequence_id == id && h.source_port_identity == own);
        assert!(h.sdo_id == pre_inst.default_ds.sdo_id && h.domain_number == pre_inst.default_ds.domain_number);
    } else {
        // C08: end-to-end Delay_Req only by the slave port
        assert!(post == want && actions.n == 0);
    }
    kani::cover!(pre.tag == 4);
    kani::cover!(pre.tag == 2);
}

/// slave-side handlers on a port that is not Slave: frame (C07/C08)
#[kani::proof]
#[kani::unwind(34)]
#[kani::stub(PortActionIterator::from, PortActionIterator::verif_recording_from)]
#[kani::stub(<Duration as core::ops::Div<i32>>::div, stub_div_by_two)]
#[kani::stub(<Duration as core::ops::Div<f64>>::div, stub_div_by_two)]
fn c07_slave_handlers_when_not_slave() {
    let lock = ChkLock::new(any_instance_state(0));
    let tag: u8 = kani::any();
    kani::assume(tag < 4);
    mk_port!(port, &lock, port_state_with_tag(tag), Running);
    let pre = port_view(&port);
    let pre_inst = instance_view(lock.peek());
    let which: u8 = kani::any();
    kani::assume(which < 4);
    let header = any_header();
    let n = match which {
        0 => run_actions!(port.handle_sync(header, SyncMessage { origin_timestamp: any_wire_timestamp() }, any_time())).n,
        1 => run_actions!(port.handle_follow_up(header, FollowUpMessage { precise_origin_timestamp: any_wire_timestamp() })).n,
        2 => run_actions!(port.handle_delay_resp(header, DelayRespMessage { receive_timestamp: any_wire_timestamp(), requesting_port_identity: any_port_identity() })).n,
        _ => run_actions!(port.handle_delay_timestamp(kani::any(), any_time())).n,
    };
    assert!(n == 0);
    assert!(port_view(&port) == pre);
    assert!(instance_view(lock.peek()) == pre_inst);
}

// ============================================================================================ C14
fn p2p_setup_state() -> PortState {
    any_port_state()
}

/// Pdelay_Req emission (any port state: the peer mechanism runs on every P2P port): fresh id, the
/// exchange record is reset, one event send (link-local) with the PDelayReq context, timer re-armed.
#[kani::proof]
#[kani::unwind(34)]
#[kani::stub(PortActionIterator::from, PortActionIterator::verif_recording_from)]
#[kani::stub(crate::time::Interval::as_core_duration, stub_as_core_duration)]
#[kani::stub(core::time::Duration::mul_f64, stub_mul_f64)]
#[kani::stub(Message::serialize, Message::verif_recording_serialize)]
fn c14_send_p2p_delay_request() {
    let lock = ChkLock::new(any_instance_state(0));
    mk_port!(port, &lock, p2p_setup_state(), Running);
    let interval = any_interval();
    port.config.delay_mechanism = crate::config::DelayMechanism::P2P { interval };
    let pre = port_view(&port);
    let pre_inst = instance_view(lock.peek());
    let own = port.port_identity;

    let actions = run_actions!(port.send_delay_request());
    let post = port_view(&port);
    assert!(instance_view(lock.peek()) == pre_inst);

    let id = pre.seq[3];
    let mut want = pre;
    want.peer = PeerDelayState::Measuring {
        id,
        responder_identity: None,
        request_send_time: None,
        request_recv_time: None,
        response_send_time: None,
        response_recv_time: None,
    };
    want.seq[3] = id.wrapping_add(1);
    want.rng = post.rng;
    assert!(post == want);
    assert!(actions.n == 2 && actions.n_reset_delay_req == 1 && actions.n_send_event == 1);
    assert!(actions.ctx_kind == 2 && actions.ctx_id == id);
    let f = actions.event.unwrap();
    let (h, _b) = emitted_message(&f, 0x2);
    assert!(f.link_local && h.sequence_id == id && h.source_port_identity == own);
    assert!(h.sdo_id == pre_inst.default_ds.sdo_id && h.domain_number == pre_inst.default_ds.domain_number);
}

/// transmit timestamp of the Pdelay_Req (t1): accepted only for the request in flight, once.
#[kani::proof]
#[kani::unwind(34)]
#[kani::stub(PortActionIterator::from, PortActionIterator::verif_recording_from)]
#[kani::stub(<Duration as core::ops::Div<i32>>::div, stub_div_by_two)]
#[kani::stub(<Duration as core::ops::Div<f64>>::div, stub_div_by_two)]
fn c14_pdelay_timestamp() {
    let lock = ChkLock::new(any_instance_state(0));
    mk_port!(port, &lock, p2p_setup_state(), Running);
    let id: u16 = kani::any();
    let ts = any_realistic_time();
    peer_times_realistic(&port.peer_delay_state);
    let pre = port_view(&port);
    let asym = dur_bits(port.config.delay_asymmetry);

    let actions = run_actions!(port.handle_pdelay_timestamp(id, ts));
    let post = port_view(&port);

    let mut want = pre;
    let mut meas = None;
    if let PeerDelayState::Measuring { id: cur, responder_identity, request_send_time: None, request_recv_time, response_send_time, response_recv_time } = pre.peer {
        if cur == id {
            want.peer = PeerDelayState::Measuring { id: cur, responder_identity, request_send_time: Some(ts), request_recv_time, response_send_time, response_recv_time };
            meas = spec_extract(&mut want, asym);
        }
    }
    check_against_spec(&pre, want, meas, &post, &actions);
    kani::cover!(meas.is_some());
    kani::cover!(meas.is_some() && pre.tag == 0);
}

/// all stored peer-delay timestamps come from a realistic clock (so that differences cannot wrap)
fn peer_times_realistic(p: &PeerDelayState) {
    if let PeerDelayState::Measuring { request_send_time, request_recv_time, response_send_time, response_recv_time, .. } = p {
        for x in [request_send_time, request_recv_time, response_send_time, response_recv_time] {
            if let Some(v) = x {
                kani::assume(time_bits(*v) >= (1u128 << 80) && time_bits(*v) < (1u128 << 95));
            }
        }
    }
}

/// Pdelay_Resp (t2 in the body, t4 = receive time - correction; one-step: t3 := t2).
/// A response to the request in flight from a *second* responder makes the port Faulty and is not used.
fn pdelay_resp_case(two_step: bool) {
    let lock = ChkLock::new(any_instance_state(0));
    mk_port!(port, &lock, p2p_setup_state(), Running);
    let mut header = any_header();
    header.two_step_flag = two_step;
    let msg = PDelayRespMessage { request_receive_timestamp: any_wire_timestamp(), requesting_port_identity: any_port_identity() };
    kani::assume(realistic_wire(msg.request_receive_timestamp));
    let recv_time = any_realistic_time();
    peer_times_realistic(&port.peer_delay_state);
    let pre = port_view(&port);
    let pre_inst = instance_view(lock.peek());
    let asym = dur_bits(port.config.delay_asymmetry);
    let own = port.port_identity;

    let actions = run_actions!(port.handle_peer_delay_response(header, msg, recv_time));
    let post = port_view(&port);
    assert!(instance_view(lock.peek()) == pre_inst);

    let mut want = pre;
    let mut meas = None;
    let mut second_responder = false;
    if own == msg.requesting_port_identity {
        match pre.peer {
            PeerDelayState::PostMeasurement { id, responder_identity } if id == header.sequence_id => {
                second_responder = responder_identity != header.source_port_identity;
            }
            PeerDelayState::Measuring { id, responder_identity, request_send_time, request_recv_time: _, response_send_time, response_recv_time } if id == header.sequence_id => {
                if responder_identity.is_some() && responder_identity != Some(header.source_port_identity) {
                    second_responder = true;
                } else if response_recv_time.is_none() {
                    let t2 = t(spec_time_of_wire(msg.request_receive_timestamp));
                    let t4 = t((time_bits(recv_time) as i128 - spec_corr(header.correction_field)) as u128);
                    want.peer = PeerDelayState::Measuring {
                        id,
                        responder_identity: Some(header.source_port_identity),
                        request_send_time,
                        request_recv_time: Some(t2),
                        response_send_time: if header.two_step_flag { response_send_time } else { Some(t2) },
                        response_recv_time: Some(t4),
                    };
                    meas = spec_extract(&mut want, asym);
                }
            }
            _ => {}
        }
    }
    if second_responder {
        // Faulty; the later response's timestamps are not stored; filter replaced and demobilized once
        want.tag = 0;
        want.slave = None;
        want.n_filter_new += 1;
        want.n_filter_demobilize += 1;
        want.filter = post.filter;
        assert!(post.filter.n_meas == 0 && post.filter.serial != pre.filter.serial);
        // the later response's timestamps are not stored, and the doubly answered exchange is over: no later
        // message with this sequence id may complete it (C14: FAULTY is left only after an exchange answered
        // by exactly one responder). An exchange that had already produced its measurement stays recorded.
        want.peer = match pre.peer {
            PeerDelayState::Measuring { .. } => PeerDelayState::Empty,
            other => other,
        };
        assert!(post.peer == want.peer);
        assert!(post == want && actions.n == 0);
    } else {
        check_against_spec(&pre, want, meas, &post, &actions);
    }
    kani::cover!(second_responder);
    kani::cover!(meas.is_some());
    kani::cover!(meas.is_some() && pre.tag == 0);
}
#[kani::proof]
#[kani::unwind(34)]
#[kani::stub(PortActionIterator::from, PortActionIterator::verif_recording_from)]
#[kani::stub(<Duration as core::ops::Div<i32>>::div, stub_div_by_two)]
#[kani::stub(<Duration as core::ops::Div<f64>>::div, stub_div_by_two)]
fn c14_pdelay_resp_two_step() { pdelay_resp_case(true) }
#[kani::proof]
#[kani::unwind(34)]
#[kani::stub(PortActionIterator::from, PortActionIterator::verif_recording_from)]
#[kani::stub(<Duration as core::ops::Div<i32>>::div, stub_div_by_two)]
#[kani::stub(<Duration as core::ops::Div<f64>>::div, stub_div_by_two)]
fn c14_pdelay_resp_one_step() { pdelay_resp_case(false) }


/// Pdelay_Resp_Follow_Up (t3 = responseOriginTimestamp + correction), same responder only.
#[kani::proof]
#[kani::unwind(34)]
#[kani::stub(PortActionIterator::from, PortActionIterator::verif_recording_from)]
#[kani::stub(<Duration as core::ops::Div<i32>>::div, stub_div_by_two)]
#[kani::stub(<Duration as core::ops::Div<f64>>::div, stub_div_by_two)]
fn c14_pdelay_resp_follow_up() {
    let lock = ChkLock::new(any_instance_state(0));
    mk_port!(port, &lock, p2p_setup_state(), Running);
    let header = any_header();
    let msg = PDelayRespFollowUpMessage { response_origin_timestamp: any_wire_timestamp(), requesting_port_identity: any_port_identity() };
    kani::assume(realistic_wire(msg.response_origin_timestamp));
    peer_times_realistic(&port.peer_delay_state);
    let pre = port_view(&port);
    let pre_inst = instance_view(lock.peek());
    let asym = dur_bits(port.config.delay_asymmetry);
    let own = port.port_identity;

    let actions = run_actions!(port.handle_peer_delay_response_follow_up(header, msg));
    let post = port_view(&port);
    assert!(instance_view(lock.peek()) == pre_inst);

    let mut want = pre;
    let mut meas = None;
    let mut second_responder = false;
    if own == msg.requesting_port_identity {
        match pre.peer {
            PeerDelayState::PostMeasurement { id, responder_identity } if id == header.sequence_id => {
                second_responder = responder_identity != header.source_port_identity;
            }
            PeerDelayState::Measuring { id, responder_identity, request_send_time, request_recv_time, response_send_time, response_recv_time } if id == header.sequence_id => {
                if responder_identity.is_some() && responder_identity != Some(header.source_port_identity) {
                    second_responder = true;
                } else if response_send_time.is_none() {
                    let t3 = t((spec_time_of_wire(msg.response_origin_timestamp) as i128 + spec_corr(header.correction_field)) as u128);
                    want.peer = PeerDelayState::Measuring {
                        id,
                        responder_identity: Some(header.source_port_identity),
                        request_send_time,
                        request_recv_time,
                        response_send_time: Some(t3),
                        response_recv_time,
                    };
                    meas = spec_extract(&mut want, asym);
                }
            }
            _ => {}
        }
    }
    if second_responder {
        want.tag = 0;
        want.slave = None;
        want.n_filter_new += 1;
        want.n_filter_demobilize += 1;
        want.filter = post.filter;
        assert!(post.filter.n_meas == 0 && post.filter.serial != pre.filter.serial);
        // the later response's timestamps are not stored, and the doubly answered exchange is over: no later
        // message with this sequence id may complete it (C14: FAULTY is left only after an exchange answered
        // by exactly one responder). An exchange that had already produced its measurement stays recorded.
        want.peer = match pre.peer {
            PeerDelayState::Measuring { .. } => PeerDelayState::Empty,
            other => other,
        };
        assert!(post.peer == want.peer);
        assert!(post == want && actions.n == 0);
    } else {
        check_against_spec(&pre, want, meas, &post, &actions);
    }
    kani::cover!(second_responder);
    kani::cover!(meas.is_some());
}



// ============================================================================================ C03 finding
/// FINDING harness (expected to fail while F-C03-wire-time-underflow is open): over C03's full domain (host
/// timestamps in [0, 2^64 ns), every 64-bit correction field) `handle_sync` must return normally; it does not:
/// `recv_time - correction` underflows the unsigned Time when the correction exceeds the receive timestamp.
#[kani::proof]
#[kani::unwind(34)]
#[kani::stub(PortActionIterator::from, PortActionIterator::verif_recording_from)]
#[kani::stub(<Duration as core::ops::Div<i32>>::div, stub_div_by_two)]
#[kani::stub(<Duration as core::ops::Div<f64>>::div, stub_div_by_two)]
fn c03_finding_sync_correction_exceeds_receive_time() {
    slave_setup!(lock, port);
    let mut header = any_header();
    header.two_step_flag = true;
    let msg = SyncMessage { origin_timestamp: any_wire_timestamp() };
    let recv_time = any_time();
    let _ = run_actions!(port.handle_sync(header, msg, recv_time));
}

/// same class, Follow_Up: `Time::from(preciseOriginTimestamp) + correction` with a negative correction larger
/// than the origin timestamp
#[kani::proof]
#[kani::unwind(34)]
#[kani::stub(PortActionIterator::from, PortActionIterator::verif_recording_from)]
#[kani::stub(<Duration as core::ops::Div<i32>>::div, stub_div_by_two)]
#[kani::stub(<Duration as core::ops::Div<f64>>::div, stub_div_by_two)]
fn c03_finding_follow_up_correction_below_zero() {
    slave_setup!(lock, port);
    let header = any_header();
    let msg = FollowUpMessage { precise_origin_timestamp: any_wire_timestamp() };
    let _ = run_actions!(port.handle_follow_up(header, msg));
}
