//! C13 unit "servo": child module of filters::kalman. IEEE-754 bit-precise leaf contracts of the clock
//! control path: frequency clamp, change_frequency, step/slew decision, demobilize.
//! Scope: one call from an estimator state that contains no NaN/inf (that this is an invariant of arbitrary
//! measurement trajectories is NOT proved here: floating point, whole history -- stated assumption).
#![allow(dead_code, unused_imports, missing_docs, static_mut_refs)]
use super::*;
use crate::port::verif_kani::common::{any_time, dur_bits, dur_from_bits, RecClock};

fn finite(x: f64) -> bool {
    x.is_finite()
}

/// Kani-side stand-ins: Duration <-> f64 seconds conversions use 128-bit fixed multiplication / division
/// (out of CBMC's reach); the servo logic only needs them as functions. seconds() of the configured
/// thresholds: arbitrary positive finite values.
fn stub_seconds(d: &Duration) -> f64 {
    // functional: depends only on the bits (positive for positive durations)
    let b = dur_bits(*d);
    let v = (b >> 32) as f64 * 1e-9;
    v
}
static mut FIRST_FROM_SECONDS: Option<f64> = None;
fn stub_from_seconds(secs: f64) -> Duration {
    unsafe { if FIRST_FROM_SECONDS.is_none() { FIRST_FROM_SECONDS = Some(secs); } }
    dur_from_bits(0)
}
fn noop_absorb_frequency_steer(_f: &mut BaseFilter, _steer: f64, _time: Time, _wander: f64, _config: &KalmanConfiguration) {}
fn noop_absorb_offset_steer(_f: &mut BaseFilter, _steer: f64) {}

fn any_finite() -> f64 {
    let x: f64 = kani::any();
    kani::assume(x.is_finite());
    x
}

/// configuration with positive finite thresholds and bounds (the domain of C13)
fn any_config() -> KalmanConfiguration {
    let c = KalmanConfiguration {
        max_steer: any_finite(),
        max_freq_offset: any_finite(),
        deadzone: any_finite(),
        ..KalmanConfiguration::default_for_verif()
    };
    // positive thresholds and bounds, at most 10^12 ppm (beyond that bound - current overflows to infinity)
    kani::assume(c.max_steer > 0.0 && c.max_freq_offset > 0.0 && c.deadzone >= 0.0);
    kani::assume(c.max_steer <= 1e12 && c.max_freq_offset <= 1e12);
    c
}
impl KalmanConfiguration {
    /// like Default::default but without the Duration::from_seconds conversions (fixed-point multiplication)
    fn default_for_verif() -> Self {
        Self {
            step_threshold: dur_from_bits(1_000_000i128 << 32), // 1 ms
            deadzone: 0.0,
            steer_time: dur_from_bits(2_000_000_000i128 << 32), // 2 s
            max_steer: 200.0,
            max_freq_offset: 400.0,
            initial_frequency_uncertainty: 100e-6,
            initial_wander: 1e-16,
            delay_wander: 1e-4 / 3600.0,
            precision_low_probability: 1.0 / 3.0,
            precision_high_probability: 2.0 / 3.0,
            precision_hysteresis: 16,
            estimate_threshold: dur_from_bits(200_000_000i128 << 32),
            difference_estimation_boundary: 4,
            statistical_estimation_boundary: 8,
            peer_delay_factor: 2.0,
        }
    }
}

fn filter_with(config: KalmanConfiguration, offset: f64, freq: f64, delay: f64, unc00: f64, cur: Option<f64>) -> KalmanFilter {
    let inner = InnerFilter {
        state: Vector::new_vector([offset, freq, delay]),
        uncertainty: Matrix::new([[unc00, 0.0, 0.0], [0.0, 1e-8, 0.0], [0.0, 0.0, 1e-6]]),
        filter_time: any_time(),
    };
    KalmanFilter {
        config,
        running_filter: BaseFilter(Some(inner.clone())),
        wander_filter: BaseFilter(Some(inner)),
        wander_score: 0,
        wander: 1e-16,
        wander_measurement_error: 1.0,
        measurement_error_estimator: MeasurementErrorEstimator::default(),
        cur_frequency: cur,
    }
}

/// clamp_adjustment: returns the requested adjustment when the sum stays within +-bound, otherwise the
/// distance to the violated bound; always finite. (That the *commanded* frequency current + adjustment stays
/// within the bound despite rounding is the obligation of c13_change_frequency_commands_within_bounds.)
#[kani::proof]
fn c13_clamp_keeps_commanded_frequency_in_bounds() {
    let current = any_finite();
    let error = any_finite();
    let bound = any_finite();
    kani::assume(bound > 0.0 && bound <= 1e12 && current.abs() <= bound && error.abs() <= 1e15);
    let sum = current + error;
    let r = clamp_adjustment(current, error, bound);
    assert!(r.is_finite());
    if sum > bound {
        assert!(r == bound - current);
    } else if sum < -bound {
        assert!(r == -bound - current);
    } else {
        assert!(r == error);
    }
}

/// change_frequency: the argument of Clock::set_frequency is finite and within +-max_freq_offset; at most one
/// call; on clock failure the recorded frequency is unchanged, on success it equals the commanded value.
#[kani::proof]
#[kani::stub(BaseFilter::absorb_frequency_steer, noop_absorb_frequency_steer)]
fn c13_change_frequency_commands_within_bounds() {
    let config = any_config();
    let cur = any_finite();
    kani::assume(cur.abs() <= config.max_freq_offset);
    let freq_est = any_finite();
    kani::assume(freq_est.abs() <= 1.0); // |estimated frequency error| <= 10^6 ppm
    let target = any_finite();
    kani::assume(target.abs() <= config.max_steer);
    let has_cur: bool = kani::any();
    let mut f = filter_with(config, 0.0, freq_est, 0.0, 1e-6, if has_cur { Some(cur) } else { None });
    let mut clock = RecClock::new();
    f.change_frequency(target, &mut clock);
    assert!(clock.n_step == 0 && clock.n_freq <= 1);
    if !has_cur {
        assert!(clock.n_freq == 0 && f.cur_frequency.is_none());
    } else {
        assert!(clock.n_freq == 1);
        let cmd = f64::from_bits(clock.last_freq_bits);
        assert!(cmd.is_finite());
        assert!(cmd <= config.max_freq_offset && cmd >= -config.max_freq_offset);
        let now = f.cur_frequency.unwrap();
        assert!(now.to_bits() == cur.to_bits() || now.to_bits() == cmd.to_bits());
    }
}

/// steer: the clock is stepped only if |offset estimate| >= step threshold, and then by exactly -offset
/// (finite); otherwise at most one frequency command and no step.
#[kani::proof]
#[kani::stub(BaseFilter::absorb_frequency_steer, noop_absorb_frequency_steer)]
#[kani::stub(BaseFilter::absorb_offset_steer, noop_absorb_offset_steer)]
#[kani::stub(Duration::seconds, stub_seconds)]
#[kani::stub(Duration::from_seconds, stub_from_seconds)]
#[kani::stub(core::time::Duration::from_secs_f64, stub_core_from_secs_f64)]
fn c13_step_only_at_or_above_threshold() {
    let config = any_config();
    let offset = any_finite();
    let unc = any_finite();
    kani::assume(unc >= 0.0);
    let cur = any_finite();
    kani::assume(cur.abs() <= config.max_freq_offset);
    let mut f = filter_with(config, offset, 0.0, 0.0, unc, Some(cur));
    let thr = stub_seconds(&config.step_threshold);
    let mut clock = RecClock::new();
    let _ = f.steer(&mut clock);
    if offset.abs() < thr {
        assert!(clock.n_step == 0 && clock.n_freq <= 1);
        if clock.n_freq == 1 {
            let cmd = f64::from_bits(clock.last_freq_bits);
            assert!(cmd.is_finite() && cmd.abs() <= config.max_freq_offset);
        }
    } else {
        assert!(clock.n_step == 1 && clock.n_freq == 0);
        // the step handed to the clock is -offset: finite, magnitude >= threshold
        // (the first Duration::from_seconds of the call is the argument of Clock::step_clock)
        let stepped = unsafe { FIRST_FROM_SECONDS }.unwrap();
        assert!(stepped.is_finite() && stepped == -offset && stepped.abs() >= thr);
    }
}
fn stub_core_from_secs_f64(_s: f64) -> core::time::Duration {
    core::time::Duration::from_secs(kani::any::<u32>() as u64)
}

/// demobilize: at most one final frequency command, within the bound; the filter is consumed (none thereafter)
#[kani::proof]
#[kani::stub(BaseFilter::absorb_frequency_steer, noop_absorb_frequency_steer)]
fn c13_demobilize_at_most_one_final_command() {
    let config = any_config();
    let cur = any_finite();
    kani::assume(cur.abs() <= config.max_freq_offset);
    let freq_est = any_finite();
    kani::assume(freq_est.abs() <= 1.0);
    let has_cur: bool = kani::any();
    let f = filter_with(config, 0.0, freq_est, 0.0, 1e-6, if has_cur { Some(cur) } else { None });
    let mut clock = RecClock::new();
    f.demobilize(&mut clock);
    assert!(clock.n_step == 0 && clock.n_freq <= 1);
    if clock.n_freq == 1 {
        let cmd = f64::from_bits(clock.last_freq_bits);
        assert!(cmd.is_finite() && cmd.abs() <= config.max_freq_offset);
    }
}


// ---- measurement: when may the servo be armed (C13 "none thereafter" / C08 "only the slave port adjusts the clock")
static mut STEER_CALLS: u32 = 0;
static mut STEER_SAW_FREQ_CALLS: u32 = 0;
impl KalmanFilter {
    /// recording stand-in for steer (its own contract: c13_step_only_at_or_above_threshold)
    fn verif_rec_steer<C: crate::Clock>(&mut self, _clock: &mut C) -> crate::filters::FilterUpdate {
        unsafe { STEER_CALLS += 1; }
        crate::filters::FilterUpdate::default()
    }
}
fn noop_update_wander(_f: &mut KalmanFilter, _m: Measurement) {}
fn noop_progress_filtertime(_f: &mut BaseFilter, _time: Time, _wander: f64, _config: &KalmanConfiguration) {}
fn noop_absorb_sync(_f: &mut BaseFilter, _o: f64, _v: f64, _config: &KalmanConfiguration) {}
fn noop_absorb_peer(_f: &mut BaseFilter, _o: f64, _v: f64) {}
fn noop_estimator_absorb(_e: &mut MeasurementErrorEstimator, _m: Measurement, _f: f64, _config: &KalmanConfiguration) {}
fn one_measurement_variance(_e: &MeasurementErrorEstimator, _config: &KalmanConfiguration) -> f64 { 1.0 }

/// KalmanFilter::measurement arms the frequency control (ensure_freq_init: set_frequency(0.0), cur_frequency :=
/// Some(0)) only for a measurement that carries a sync or delay offset -- i.e. one that only a SLAVE port produces.
/// A measurement carrying only a peer delay (which a P2P port produces in every state) makes no clock call of its
/// own and leaves the control un-armed, so that steer/update/demobilize (c13_change_frequency_*: no command while
/// cur_frequency is None) stay silent on a port that is not slave. The estimator updates are stubbed out (float
/// matrix algebra; they have no access to the clock), steer is replaced by a recording stub.
#[kani::proof]
#[kani::stub(KalmanFilter::steer, KalmanFilter::verif_rec_steer)]
#[kani::stub(KalmanFilter::update_wander, noop_update_wander)]
#[kani::stub(BaseFilter::progress_filtertime, noop_progress_filtertime)]
#[kani::stub(BaseFilter::absorb_sync_offset, noop_absorb_sync)]
#[kani::stub(BaseFilter::absorb_delay_offset, noop_absorb_sync)]
#[kani::stub(BaseFilter::absorb_peer_delay, noop_absorb_peer)]
#[kani::stub(MeasurementErrorEstimator::absorb_measurement, noop_estimator_absorb)]
#[kani::stub(MeasurementErrorEstimator::measurement_variance, one_measurement_variance)]
#[kani::stub(Duration::seconds, stub_seconds)]
fn c13_measurement_arms_control_only_with_an_offset() {
    let config = any_config();
    let cur = any_finite();
    kani::assume(cur.abs() <= config.max_freq_offset);
    let has_cur: bool = kani::any();
    let mut f = filter_with(config, 0.0, 0.0, 0.0, 1e-6, if has_cur { Some(cur) } else { None });
    if kani::any() { f.running_filter = BaseFilter(None); f.wander_filter = BaseFilter(None); }
    let some_dur = |on: bool| if on { Some(crate::port::verif_kani::common::any_duration()) } else { None };
    let (has_sync, has_delay, has_peer): (bool, bool, bool) = (kani::any(), kani::any(), kani::any());
    let m = Measurement {
        event_time: any_time(),
        offset: some_dur(kani::any()),
        delay: some_dur(kani::any()),
        peer_delay: some_dur(has_peer),
        raw_sync_offset: some_dur(has_sync),
        raw_delay_offset: some_dur(has_delay),
    };
    let in_order = f.running_filter.after_filter_time(m.event_time);
    let mut clock = RecClock::new();
    unsafe { STEER_CALLS = 0; }

    let _ = f.measurement(m, &mut clock);

    assert!(clock.n_step == 0 && clock.n_props == 0);
    if !in_order {
        // a measurement older than the filter time is dropped entirely
        assert!(!clock.touched() && unsafe { STEER_CALLS } == 0);
        assert!(f.cur_frequency.map(f64::to_bits) == if has_cur { Some(cur.to_bits()) } else { None });
    } else {
        assert!(unsafe { STEER_CALLS } == 1);
        if has_cur || !(has_sync || has_delay) {
            // already armed, or nothing that only a slave port measures: no clock call, control state unchanged
            assert!(clock.n_freq == 0);
            assert!(f.cur_frequency.map(f64::to_bits) == if has_cur { Some(cur.to_bits()) } else { None });
        } else {
            // first offset measurement: frequency initialised to exactly 0 ppm (re-tried once per offset kind if
            // the clock refuses), never anything else
            assert!(clock.n_freq >= 1 && clock.n_freq <= 2);
            assert!(clock.last_freq_bits == 0f64.to_bits());
            assert!(f.cur_frequency.is_none() || f.cur_frequency.map(f64::to_bits) == Some(0f64.to_bits()));
        }
    }
    kani::cover!(in_order && !has_cur && has_peer && !has_sync && !has_delay);
    kani::cover!(in_order && !has_cur && has_sync && clock.n_freq == 2);
}
