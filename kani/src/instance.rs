//! child module of ptp_instance: observation snapshots (C19), lock discipline of the instance API (C17),
//! run-time setting changes (C03/C08).
#![allow(dead_code, unused_imports, missing_docs)]
use super::*;
use crate::port::verif_kani::common::*;
use crate::verif_gen::*;

fn any_instance(path_k: usize) -> PtpInstance<RecFilter, ChkLock> {
    PtpInstance {
        state: ChkLock::new(any_instance_state(path_k)),
        log_bmca_interval: AtomicI8::new(kani::any()),
        _filter: PhantomData,
    }
}

/// every data set exposed for observation equals the live data set, field by field; each getter takes the
/// instance lock exactly once (so a snapshot is never a mixture of two updates) and never for writing.
#[kani::proof]
#[kani::unwind(9)]
fn c19_instance_snapshots_equal_live_state() {
    let inst = any_instance(2);
    let live = instance_view(inst.state.peek());
    inst.state.reset_counters();

    let d = inst.default_ds();
    assert!(inst.state.n_ref.get() == 1 && inst.state.n_mut.get() == 0);
    assert!(d.clock_identity == live.default_ds.clock_identity && d.number_ports == live.default_ds.number_ports);
    assert!(d.clock_quality == live.default_ds.clock_quality);
    assert!(d.priority_1 == live.default_ds.priority_1 && d.priority_2 == live.default_ds.priority_2);
    assert!(d.domain_number == live.default_ds.domain_number && d.slave_only == live.default_ds.slave_only);
    assert!(d.sdo_id == live.default_ds.sdo_id);

    let p = inst.parent_ds();
    assert!(inst.state.n_ref.get() == 2 && inst.state.n_mut.get() == 0);
    assert!(p.parent_port_identity == live.parent_ds.parent_port_identity);
    assert!(p.grandmaster_identity == live.parent_ds.grandmaster_identity);
    assert!(p.grandmaster_clock_quality == live.parent_ds.grandmaster_clock_quality);
    assert!(p.grandmaster_priority_1 == live.parent_ds.grandmaster_priority_1);
    assert!(p.grandmaster_priority_2 == live.parent_ds.grandmaster_priority_2);

    let t = inst.time_properties_ds();
    assert!(inst.state.n_ref.get() == 3 && inst.state.n_mut.get() == 0);
    assert!(t == live.time_properties_ds);

    let contribution = if kani::any() {
        Some(FilterEstimate { offset_from_master: any_duration(), mean_delay: any_duration() })
    } else { None };
    let want = contribution.as_ref().map(|c| (dur_bits(c.offset_from_master), dur_bits(c.mean_delay)));
    let c = inst.current_ds(contribution);
    assert!(inst.state.n_ref.get() == 4 && inst.state.n_mut.get() == 0);
    assert!(c.steps_removed == live.current_ds.steps_removed);
    match want {
        Some((o, m)) => assert!(dur_bits(c.offset_from_master) == o && dur_bits(c.mean_delay) == m),
        None => assert!(dur_bits(c.offset_from_master) == 0 && dur_bits(c.mean_delay) == 0),
    }

    let pt = inst.path_trace_ds();
    assert!(inst.state.n_ref.get() == 5 && inst.state.n_mut.get() == 0);
    assert!(pt.enable == live.path_enable && pt.list.len() == live.path_len);
    assert!(pt.list.get(0).copied() == live.path0 && pt.list.get(1).copied() == live.path1);
    // observation does not change anything
    assert!(instance_view(inst.state.peek()) == live);
}

/// run-time setting changes: one write acquisition each, only the addressed field changes
#[kani::proof]
#[kani::unwind(9)]
fn c17_instance_setters_single_write() {
    let inst = any_instance(0);
    let live = instance_view(inst.state.peek());
    inst.state.reset_counters();
    let q = any_clock_quality();
    inst.set_clock_quality(q);
    assert!(inst.state.n_mut.get() == 1 && inst.state.n_ref.get() == 0);
    let so: bool = kani::any();
    inst.set_slave_only(so);
    assert!(inst.state.n_mut.get() == 2 && inst.state.n_ref.get() == 0);
    let now = instance_view(inst.state.peek());
    let mut want = live.clone();
    want.default_ds.clock_quality = q;
    want.default_ds.slave_only = so;
    assert!(now == want);
}

// helpers for the instance-level BMCA composition harness (port::verif_kani::bmca_h)
pub(crate) fn any_instance_with_log(path_k: usize, log: i8) -> PtpInstance<RecFilter, ChkLock> {
    PtpInstance { state: ChkLock::new(any_instance_state(path_k)), log_bmca_interval: AtomicI8::new(log), _filter: PhantomData }
}
pub(crate) fn state_of(inst: &PtpInstance<RecFilter, ChkLock>) -> &ChkLock { &inst.state }
