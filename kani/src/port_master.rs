//! C10 / C08 unit "master": Sync, Follow_Up, Delay_Resp, Pdelay_Resp, Pdelay_Resp_Follow_Up emission.
//! Every emitted frame is read back with an independent Clause-13 reader (common::spec_frame) and compared
//! field by field with what IEEE 1588-2019 11.3/11.4, 13.6-13.11 prescribe; well-formedness (defined type,
//! declared length == emitted length == size of the type) implies decodability by the C04 contracts; state guards (C08); at most one event send (C10).
#![allow(dead_code, unused_imports, missing_docs, static_mut_refs)]
use super::common::*;
use super::super::state::PortState;
use super::super::*;
use super::slave_h::{stub_as_core_duration, stub_mul_f64};
use crate::datastructures::common::{TimeInterval, WireTimestamp};
use crate::datastructures::messages::{DelayReqMessage, Header, Message, MessageBody};
use crate::verif_gen::*;

/// Stand-in for `WireTimestamp::from(Time)` (seconds = floor(ns / 10^9), nanos = ns mod 10^9): the 128-bit
/// division is out of CBMC's reach; its exact contract is proved in Verus unit "time"
/// (`WireTimestamp::from`, and `c16_wire_round_trip`: origin + sub-ns correction reproduces the time to
/// 2^-16 ns). Here it is an arbitrary *function* of the time: the Kani verdicts only say "the frame carries
/// WireTimestamp::from(ts) and correction subnano(ts)", never what those values are.
pub(crate) fn stub_wire_from_time(t: Time) -> WireTimestamp {
    let b = time_bits(t);
    WireTimestamp { seconds: ((b >> 62) as u64) & 0xffff_ffff_ffff, nanos: ((b >> 32) as u32) & 0x3fff_ffff }
}

fn bears_identity(h: &Header, own: PortIdentity, inst: &InstanceView) -> bool {
    h.source_port_identity == own && h.sdo_id == inst.default_ds.sdo_id && h.domain_number == inst.default_ds.domain_number
}

/// Sync: only from Master; sequence id +1 mod 2^16; one event send with the Sync context; sync timer re-armed.
#[kani::proof]
#[kani::unwind(34)]
#[kani::stub(PortActionIterator::from, PortActionIterator::verif_recording_from)]
#[kani::stub(Message::serialize, Message::verif_recording_serialize)]
#[kani::stub(crate::time::Interval::as_core_duration, stub_as_core_duration)]
fn c10_send_sync() {
    let lock = ChkLock::new(any_instance_state(0));
    mk_port!(port, &lock, any_port_state(), Running);
    let pre = port_view(&port);
    let inst = instance_view(lock.peek());
    let own = port.port_identity;

    let actions = run_actions!(port.handle_sync_timer());
    let post = port_view(&port);
    assert!(instance_view(lock.peek()) == inst);

    let mut want = pre;
    if pre.tag == 2 {
        let id = pre.seq[1];
        want.seq[1] = id.wrapping_add(1);
        assert!(post == want);
        assert!(actions.n == 2 && actions.n_reset_sync == 1 && actions.n_send_event == 1);
        assert!(actions.ctx_kind == 0 && actions.ctx_id == id);
        let f = actions.event.unwrap();
        let (h, _b) = emitted_message(&f, 0x0);
        // statime is a two-step master
        assert!(!f.link_local && h.sequence_id == id && bears_identity(&h, own, &inst) && h.two_step_flag);
    } else {
        // C08: Sync only by ports in the master state
        assert!(post == want && actions.n == 0);
    }
    kani::cover!(pre.tag == 2 && pre.seq[1] == 65535);
    kani::cover!(pre.tag == 4);
}

/// Follow_Up for a reported Sync transmit timestamp: same sequence id, preciseOriginTimestamp =
/// WireTimestamp::from(ts), correctionField = subnano(ts); exactly one general send; only from Master.
#[kani::proof]
#[kani::unwind(34)]
#[kani::stub(PortActionIterator::from, PortActionIterator::verif_recording_from)]
#[kani::stub(Message::serialize, Message::verif_recording_serialize)]
#[kani::stub(<WireTimestamp as core::convert::From<Time>>::from, stub_wire_from_time)]
fn c10_follow_up_for_sync_timestamp() {
    let lock = ChkLock::new(any_instance_state(0));
    mk_port!(port, &lock, any_port_state(), Running);
    let pre = port_view(&port);
    let inst = instance_view(lock.peek());
    let own = port.port_identity;
    let id: u16 = kani::any();
    let ts = any_time();

    let ctx = TimestampContext { inner: actions::TimestampContextInner::Sync { id } };
    let actions = run_actions!(port.handle_send_timestamp(ctx, ts));
    let post = port_view(&port);
    assert!(instance_view(lock.peek()) == inst);
    assert!(post == pre);
    if pre.tag == 2 {
        assert!(actions.n == 1 && actions.n_send_general == 1 && actions.n_send_event == 0);
        let f = actions.general.unwrap();
        let (h, b) = emitted_message(&f, 0x8);
        assert!(!f.link_local && h.sequence_id == id && bears_identity(&h, own, &inst));
        // sub-nanosecond part of the timestamp, in 2^-16 ns: bits 16..32 of the 2^-32 ns fraction
        assert!(h.correction_field.0.to_bits() as i128 == ((time_bits(ts) & 0xffff_ffff) >> 16) as i128);
        match b { MessageBody::FollowUp(m) => assert!(m.precise_origin_timestamp == stub_wire_from_time(ts)), _ => assert!(false) }
    } else {
        assert!(actions.n == 0);
    }
    kani::cover!(pre.tag == 2);
}

/// domain of C10 for Delay_Req: the sum request correction + sub-ns part must be representable
/// (the complement is the known finding `delay_resp` correction overflow, see c03 findings)
fn delay_req_correction_in_range(h: &Header) -> bool {
    h.correction_field.0.to_bits() <= i64::MAX - 0xffff
}

/// Delay_Resp: echoes requester identity and sequence id; receiveTimestamp = WireTimestamp::from(ts),
/// correction = request correction + subnano(ts); only from Master; one general send.
#[kani::proof]
#[kani::unwind(34)]
#[kani::stub(PortActionIterator::from, PortActionIterator::verif_recording_from)]
#[kani::stub(Message::serialize, Message::verif_recording_serialize)]
#[kani::stub(<WireTimestamp as core::convert::From<Time>>::from, stub_wire_from_time)]
fn c10_delay_resp_for_delay_req() {
    let lock = ChkLock::new(any_instance_state(0));
    mk_port!(port, &lock, any_port_state(), Running);
    let pre = port_view(&port);
    let inst = instance_view(lock.peek());
    let own = port.port_identity;
    let mut req = any_header();
    // what parse_and_filter lets through: the instance's domain and sdoId
    req.sdo_id = inst.default_ds.sdo_id;
    req.domain_number = inst.default_ds.domain_number;
    let msg = DelayReqMessage { origin_timestamp: any_wire_timestamp() };
    let ts = any_time();

    let actions = run_actions!(port.handle_delay_req(req, msg, ts));
    let post = port_view(&port);
    assert!(instance_view(lock.peek()) == inst);
    assert!(post == pre);
    if pre.tag == 2 {
        assert!(actions.n == 1 && actions.n_send_general == 1 && actions.n_send_event == 0);
        let f = actions.general.unwrap();
        let (h, b) = emitted_message(&f, 0x9);
        assert!(!f.link_local && h.sequence_id == req.sequence_id && bears_identity(&h, own, &inst));
        // request correction + sub-ns part; IEEE 1588 7.3.4.2 / 13.3.2.9: a correction too large to be
        // represented is the maximum value
        let sum = req.correction_field.0.to_bits() as i128 + ((time_bits(ts) & 0xffff_ffff) >> 16) as i128;
        assert!(h.correction_field.0.to_bits() as i128 == if sum > i64::MAX as i128 { i64::MAX as i128 } else { sum });
        match b {
            MessageBody::DelayResp(m) => {
                assert!(m.receive_timestamp == stub_wire_from_time(ts));
                assert!(m.requesting_port_identity == req.source_port_identity);
            }
            _ => assert!(false),
        }
    } else {
        // C08: Delay_Resp only by ports in the master state
        assert!(actions.n == 0);
    }
    kani::cover!(pre.tag == 2);
}

/// Pdelay_Resp: echoes requester and sequence id, requestReceiptTimestamp = WireTimestamp::from(ts) (to the
/// nanosecond), request correction copied; one event send (link-local) with the PDelayResp context.
#[kani::proof]
#[kani::unwind(34)]
#[kani::stub(PortActionIterator::from, PortActionIterator::verif_recording_from)]
#[kani::stub(Message::serialize, Message::verif_recording_serialize)]
#[kani::stub(<WireTimestamp as core::convert::From<Time>>::from, stub_wire_from_time)]
fn c10_pdelay_resp_for_pdelay_req() {
    let lock = ChkLock::new(any_instance_state(0));
    mk_port!(port, &lock, any_port_state(), Running);
    let pre = port_view(&port);
    let inst = instance_view(lock.peek());
    let own = port.port_identity;
    let req = any_header();
    let ts = any_time();

    let actions = run_actions!(port.handle_pdelay_req(req, ts));
    let post = port_view(&port);
    assert!(instance_view(lock.peek()) == inst);
    assert!(post == pre);
    assert!(actions.n == 1 && actions.n_send_event == 1 && actions.n_send_general == 0);
    assert!(actions.ctx_kind == 3 && actions.ctx_id == req.sequence_id && actions.ctx_requestor == Some(req.source_port_identity));
    let f = actions.event.unwrap();
    let (h, b) = emitted_message(&f, 0x3);
    assert!(f.link_local && h.sequence_id == req.sequence_id && bears_identity(&h, own, &inst));
    assert!(h.correction_field == req.correction_field);
    match b {
        MessageBody::PDelayResp(m) => {
            assert!(m.request_receive_timestamp == stub_wire_from_time(ts));
            assert!(m.requesting_port_identity == req.source_port_identity);
        }
        _ => assert!(false),
    }
}

/// Pdelay_Resp_Follow_Up for the reported transmit time of the response.
#[kani::proof]
#[kani::unwind(34)]
#[kani::stub(PortActionIterator::from, PortActionIterator::verif_recording_from)]
#[kani::stub(Message::serialize, Message::verif_recording_serialize)]
#[kani::stub(<WireTimestamp as core::convert::From<Time>>::from, stub_wire_from_time)]
fn c10_pdelay_resp_follow_up_for_timestamp() {
    let lock = ChkLock::new(any_instance_state(0));
    mk_port!(port, &lock, any_port_state(), Running);
    let pre = port_view(&port);
    let inst = instance_view(lock.peek());
    let own = port.port_identity;
    let id: u16 = kani::any();
    let requestor = any_port_identity();
    let ts = any_time();

    let ctx = TimestampContext { inner: actions::TimestampContextInner::PDelayResp { id, requestor_identity: requestor } };
    let actions = run_actions!(port.handle_send_timestamp(ctx, ts));
    let post = port_view(&port);
    assert!(instance_view(lock.peek()) == inst);
    assert!(post == pre);
    assert!(actions.n == 1 && actions.n_send_general == 1 && actions.n_send_event == 0);
    let f = actions.general.unwrap();
    let (h, b) = emitted_message(&f, 0xa);
    assert!(f.link_local && h.sequence_id == id && bears_identity(&h, own, &inst));
    match b {
        MessageBody::PDelayRespFollowUp(m) => {
            assert!(m.response_origin_timestamp == stub_wire_from_time(ts));
            assert!(m.requesting_port_identity == requestor);
        }
        _ => assert!(false),
    }
}
