//! child module of datastructures::common::tlv: accessor for the private byte slice of the TLV iterator
#![allow(dead_code, missing_docs)]
use super::*;
impl<'a> TlvSetIterator<'a> {
    pub(crate) fn verif_len(&self) -> usize { self.buffer.len() }
}
impl<'a> TlvSet<'a> {
    pub(crate) fn verif_bytes(&self) -> &'a [u8] { self.bytes }
}
