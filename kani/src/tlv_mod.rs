//! child module of datastructures::common::tlv: accessor for the private byte slice of the TLV iterator
#![allow(dead_code, missing_docs)]
use super::*;
impl<'a> TlvSetIterator<'a> {
    pub(crate) fn verif_len(&self) -> usize { self.buffer.len() }
}
impl<'a> TlvSet<'a> {
    pub(crate) fn verif_bytes(&self) -> &'a [u8] { self.bytes }
}

// ------------------------------------------------------------------------------------------------
// TlvSetBuilder::add replaced by its contract in the announce-tx unit (copying a TLV value of symbolic length
// needs an unwinding bound of ~1000): requires room for the TLV, advances `used` by its wire size.
// The real `add` / `Tlv::serialize` are checked against that contract below for value lengths 0..=8.
// ------------------------------------------------------------------------------------------------
impl<'a> TlvSetBuilder<'a> {
    pub(crate) fn verif_contract_add(&mut self, tlv: Tlv<'_>) -> Result<(), WireFormatError> {
        // precondition of the real function (it indexes buffer[used..][..4 + len]): the TLV fits
        assert!(tlv.value.len() <= 0xffff);
        assert!(self.used + tlv.wire_size() <= self.buffer.len());
        self.used += tlv.wire_size();
        core::mem::forget(tlv);
        Ok(())
    }
    pub(crate) fn verif_used(&self) -> usize { self.used }
}

/// BOUND: value length <= 8 octets. `add` writes tlvType, lengthField and the value at `used`, advances `used` by
/// 4 + length, touches nothing else, and the resulting set is accepted by TlvSet::deserialize (for even lengths).
#[kani::proof]
#[kani::unwind(12)]
fn c15_tlv_builder_add_matches_contract() {
    let mut buf = [0xeeu8; 32];
    let mut b = TlvSetBuilder::new(&mut buf);
    let val: [u8; 8] = kani::any();
    let n: usize = kani::any();
    kani::assume(n <= 8);
    let ty: u16 = kani::any();
    b.add(Tlv { tlv_type: TlvType::from_primitive(ty), value: (&val[..n]).into() }).unwrap();
    assert!(b.used == 4 + n);
    let m: usize = kani::any();
    kani::assume(m <= 8);
    b.add(Tlv { tlv_type: TlvType::Pad, value: (&val[..m]).into() }).unwrap();
    assert!(b.used == 8 + n + m);
    let set = b.build();
    let bytes = set.bytes;
    assert!(bytes.len() == 8 + n + m);
    assert!(((bytes[0] as u16) << 8 | bytes[1] as u16) == ty);
    assert!(((bytes[2] as usize) << 8 | bytes[3] as usize) == n);
    let mut i = 0;
    while i < 8 { if i < n { assert!(bytes[4 + i] == val[i]); } i += 1; }
    assert!(bytes[4 + n] == 0x80 && bytes[5 + n] == 0x08);
    if n % 2 == 0 && m % 2 == 0 && m > 0 {
        assert!(TlvSet::deserialize(bytes).is_ok());
    }
}
