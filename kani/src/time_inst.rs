//! child module of time::instant: zero-cost constructor / accessor for the private bit pattern
#![allow(dead_code, missing_docs)]
use super::*;
pub(crate) fn from_bits(b: u128) -> Time {
    Time { inner: U96F32::from_bits(b) }
}
pub(crate) fn bits(t: Time) -> u128 {
    t.inner.to_bits()
}
