//! C13 unit "basic": child module of filters::basic. Commands of the basic averaging filter are finite.
#![allow(dead_code, unused_imports, missing_docs)]
use super::*;
use crate::port::verif_kani::common::{any_time, dur_bits, dur_from_bits, time_bits, time_from_bits, RecClock};

/// Kani-side stand-ins for fixed-point <-> f64 conversions and Duration * f64 (128-bit fixed arithmetic):
/// arbitrary *finite* results -- C13 speaks about the floating-point control law, not the conversions.
fn stub_lossy(_x: fixed::types::I96F32) -> f64 {
    let v: f64 = kani::any();
    kani::assume(v.is_finite());
    v
}
fn stub_mul<TF: fixed::traits::ToFixed>(_d: Duration, _f: TF) -> Duration {
    let b: i128 = kani::any();
    kani::assume(b > -(1i128 << 100) && b < (1i128 << 100));
    dur_from_bits(b)
}

/// every frequency handed to the clock is finite (one measurement step from any finite filter state)
#[kani::proof]
#[kani::stub(<Duration as core::ops::Mul<f64>>::mul, stub_mul)]
fn c13_basic_filter_commands_are_finite() {
    let gain: f64 = kani::any();
    kani::assume(gain > 0.0 && gain <= 1.0);
    let mut f = BasicFilter::new(gain);
    let cur: f64 = kani::any();
    let conf: f64 = kani::any();
    kani::assume(cur.is_finite() && cur.abs() <= 1e6 && conf.is_finite() && conf > 0.0 && conf <= 1.0);
    f.cur_freq = cur;
    f.freq_confidence = conf;
    if kani::any() {
        f.last_step = Some(PrevStepData { event_time: time_from_bits((kani::any::<u64>() as u128) << 32 | (1u128 << 96)), offset: dur_from_bits(kani::any::<i64>() as i128), correction: dur_from_bits(kani::any::<i64>() as i128) });
    }
    let off: i64 = kani::any();
    let m = Measurement {
        event_time: time_from_bits((kani::any::<u64>() as u128) << 32 | (1u128 << 96)),
        offset: Some(dur_from_bits((off as i128) << 20)),
        ..Default::default()
    };
    let mut clock = RecClock::new();
    let _ = f.measurement(m, &mut clock);
    if clock.n_freq > 0 {
        assert!(f64::from_bits(clock.last_freq_bits).is_finite());
    }
}
