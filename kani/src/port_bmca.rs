//! Units "announce" / "roles" / "timers": handle_announce, handle_announce_receipt_timer, the application
//! of the BMCA decision (set_recommended_state / set_recommended_port_state), start/end_bmca and the receive
//! dispatch.  Serves C05 (Tables 30-33), C07 (frames), C08 (roles), C11 (data set updates), C12 (timer
//! requests), C14 (Faulty is left only by a clean exchange), C15 (path trace), C17 (lock discipline: every
//! harness runs over ChkLock).
#![allow(dead_code, unused_imports, missing_docs, static_mut_refs)]
use super::common::*;
use super::slave_h::{stub_announce_duration, stub_as_core_duration, stub_div_by_two, stub_mul_f64};
use super::super::state::{PortState, SlaveState};
use super::super::*;
use crate::bmc::bmca::{verif_bmca, RecommendedState};
use crate::bmc::foreign_master::verif_fm;
use crate::datastructures::common::{ClockIdentity, TlvSet, TlvType, WireTimestamp};
use crate::datastructures::datasets::{InternalCurrentDS, InternalDefaultDS, InternalParentDS, PathTraceDS};
use crate::datastructures::messages::{AnnounceMessage, Header, Message, MessageBody};
use crate::config::{LeapIndicator, TimePropertiesDS, TimeSource};
use crate::verif_gen::*;

fn announce_msg<'a>(a: AnnounceMessage, suffix: TlvSet<'a>) -> Message<'a> {
    Message { header: a.header, body: MessageBody::Announce(a), suffix }
}

/// 13.5 / Table 37: time properties carried by an Announce
fn spec_time_properties(a: &AnnounceMessage) -> TimePropertiesDS {
    TimePropertiesDS {
        current_utc_offset: if a.header.current_utc_offset_valid { Some(a.current_utc_offset) } else { None },
        leap_indicator: if a.header.leap59 { LeapIndicator::Leap59 } else if a.header.leap61 { LeapIndicator::Leap61 } else { LeapIndicator::NoLeap },
        time_traceable: a.header.time_tracable,
        frequency_traceable: a.header.frequency_tracable,
        ptp_timescale: a.header.ptp_timescale,
        time_source: a.time_source,
    }
}

// ============================================================================================ C07
/// Announce bearing the port's own identity, or from a clock outside the acceptable-master list: no effect
/// at all (state, data sets, foreign-master table, timers, RNG) -- under the invariant that the parent of a
/// Slave port is acceptable and is not the port itself (established by S1, c05_apply_decision_*).
#[kani::proof]
#[kani::unwind(34)]
#[kani::stub(PortActionIterator::from, PortActionIterator::verif_recording_from)]
#[kani::stub(crate::time::Interval::as_core_duration, stub_as_core_duration)]
#[kani::stub(core::time::Duration::mul_f64, stub_mul_f64)]
#[kani::stub(<Duration as core::ops::Div<i32>>::div, stub_div_by_two)]
#[kani::stub(<Duration as core::ops::Div<f64>>::div, stub_div_by_two)]
fn c07_announce_unacceptable_or_own_is_frame() {
    let lock = ChkLock::new(any_instance_state(0));
    mk_port!(port, &lock, any_port_state(), Running);
    let a = verif_fm::any_announce();
    let src = a.header.source_port_identity;
    let accept = AnyAccept { mode: kani::any(), only: any_clock_identity() };
    kani::assume(accept.mode < 3);
    port.bmca = Bmca::new(accept, any_time_interval(), port.port_identity);
    use crate::bmc::acceptable_master::AcceptableMasterList;
    let rejected = src == port.port_identity || !accept.is_acceptable(src.clock_identity);
    kani::assume(rejected);
    // invariant: a Slave port's parent is acceptable and not the port itself
    let parent = lock.peek().parent_ds.parent_port_identity;
    kani::assume(!(port.is_steering() && src == parent));
    let pre = port_view(&port);
    let inst = instance_view(lock.peek());
    let m = announce_msg(a, TlvSet::default());

    let actions = run_actions!(port.handle_announce(&m, a));

    assert!(actions.n == 0);
    assert!(port_view(&port) == pre);
    assert!(instance_view(lock.peek()) == inst);
    kani::cover!(src == port.port_identity);
    kani::cover!(accept.mode == 1);
}

// ============================================================================================ C11 / C06 / C12
/// domain of C11 (parent stepsRemoved 0..=254; 65535 is the known C03 finding)
fn steps_in_range(a: &AnnounceMessage) -> bool {
    a.steps_removed < 255
}

/// Announce from the current parent on the slave port (decision code S1, 9.5.3 Table 33): parentDS,
/// currentDS.stepsRemoved = announced + 1, timePropertiesDS := contents of the Announce; all in ONE write
/// acquisition (C17); accepted Announce re-arms the receipt timer (C12).
#[kani::proof]
#[kani::unwind(34)]
#[kani::stub(PortActionIterator::from, PortActionIterator::verif_recording_from)]
#[kani::stub(crate::time::Interval::as_core_duration, stub_as_core_duration)]
#[kani::stub(core::time::Duration::mul_f64, stub_mul_f64)]
#[kani::stub(<Duration as core::ops::Div<i32>>::div, stub_div_by_two)]
#[kani::stub(<Duration as core::ops::Div<f64>>::div, stub_div_by_two)]
#[kani::stub(<Duration as core::ops::Mul<u16>>::mul, verif_fm::stub_mul_window)]
fn c11_announce_from_parent_updates_data_sets() {
    let mut inst0 = any_instance_state(0);
    inst0.path_trace_ds.enable = false;
    let lock = ChkLock::new(inst0);
    mk_port!(port, &lock, PortState::Slave(any_slave_state()), Running);
    let a = verif_fm::any_announce();
    kani::assume(steps_in_range(&a));
    let src = a.header.source_port_identity;
    kani::assume(src == lock.peek().parent_ds.parent_port_identity);
    // the parent is acceptable and is a different clock (invariant)
    port.bmca = Bmca::new(AnyAccept { mode: 0, only: any_clock_identity() }, any_time_interval(), port.port_identity);
    kani::assume(src.clock_identity != port.port_identity.clock_identity);
    let pre = port_view(&port);
    let inst = instance_view(lock.peek());
    let m = announce_msg(a, TlvSet::default());
    lock.reset_counters();

    let actions = run_actions!(port.handle_announce(&m, a));
    let post = port_view(&port);
    let now = instance_view(lock.peek());

    // data sets = contents of the parent's Announce
    assert!(now.current_ds.steps_removed == a.steps_removed + 1);
    assert!(now.parent_ds.parent_port_identity == src);
    assert!(now.parent_ds.grandmaster_identity == a.grandmaster_identity);
    assert!(now.parent_ds.grandmaster_clock_quality == a.grandmaster_clock_quality);
    assert!(now.parent_ds.grandmaster_priority_1 == a.grandmaster_priority_1);
    assert!(now.parent_ds.grandmaster_priority_2 == a.grandmaster_priority_2);
    assert!(now.time_properties_ds == spec_time_properties(&a));
    // everything else of the instance is untouched
    assert!(now.default_ds == inst.default_ds && now.path_len == inst.path_len && now.path_enable == inst.path_enable);
    // C17: exactly one write acquisition for the whole update
    assert!(lock.n_mut.get() == 1);
    // port: still slave of the same parent, exchange records untouched; receipt timer re-armed
    assert!(post.tag == 4 && post.slave == pre.slave && post.peer == pre.peer && post.seq == pre.seq);
    assert!(post.filter == pre.filter && post.clock == pre.clock);
    assert!(actions.n == 1 && actions.n_reset_announce_receipt == 1);
    // qualified message stored as a new foreign-master record (table was empty)
    assert!(post.fm == (1, 1));
}

/// any accepted Announce (acceptable sender, not the port itself): receipt timer re-armed (C12), port role
/// unchanged unless it comes from a lower-numbered port of the same instance (multiport rule -> Passive);
/// instance data sets untouched unless S1 applies; unqualified messages (own clock, stepsRemoved >= 255) are
/// not stored (C06).
#[kani::proof]
#[kani::unwind(34)]
#[kani::stub(PortActionIterator::from, PortActionIterator::verif_recording_from)]
#[kani::stub(crate::time::Interval::as_core_duration, stub_as_core_duration)]
#[kani::stub(core::time::Duration::mul_f64, stub_mul_f64)]
#[kani::stub(<Duration as core::ops::Div<i32>>::div, stub_div_by_two)]
#[kani::stub(<Duration as core::ops::Div<f64>>::div, stub_div_by_two)]
#[kani::stub(<Duration as core::ops::Mul<u16>>::mul, verif_fm::stub_mul_window)]
fn c06_announce_accepted_effects() {
    let lock = ChkLock::new(any_instance_state(0));
    let tag: u8 = kani::any();
    kani::assume(tag < 5 && tag != 0);
    mk_port!(port, &lock, port_state_with_tag(tag), Running);
    let a = verif_fm::any_announce();
    let src = a.header.source_port_identity;
    port.bmca = Bmca::new(AnyAccept { mode: 0, only: any_clock_identity() }, any_time_interval(), port.port_identity);
    kani::assume(src != port.port_identity);
    let parent = lock.peek().parent_ds.parent_port_identity;
    kani::assume(!(tag == 4 && src == parent));
    let own = port.port_identity;
    let pre = port_view(&port);
    let inst = instance_view(lock.peek());
    let m = announce_msg(a, TlvSet::default());

    let actions = run_actions!(port.handle_announce(&m, a));
    let post = port_view(&port);

    assert!(instance_view(lock.peek()) == inst);
    assert!(actions.n == 1 && actions.n_reset_announce_receipt == 1);
    let same_instance_lower_port = own.clock_identity == src.clock_identity && own.port_number > src.port_number;
    if same_instance_lower_port {
        assert!(post.tag == 3);
        assert!(post.multiport_disable.map(dur_bits) == Some(0));
    } else {
        assert!(post.tag == pre.tag && post.slave == pre.slave && post.multiport_disable == pre.multiport_disable);
        assert!(post.filter == pre.filter && post.n_filter_demobilize == pre.n_filter_demobilize);
    }
    // C06: stored iff qualified (table was empty: own clock identity and stepsRemoved >= 255 are the only rules)
    let qualified = src.clock_identity != own.clock_identity && a.steps_removed < 255;
    assert!(post.fm == if qualified { (1, 1) } else { (0, 0) });
    assert!(post.peer == pre.peer && post.seq == pre.seq && post.clock == pre.clock);
    kani::cover!(same_instance_lower_port);
    kani::cover!(!qualified);
}

// ============================================================================================ C08 / C12 / C14
/// announce receipt timeout: slave-only instance -> Listening (+ receipt timer re-armed); otherwise -> Master
/// (+ announce and sync timers requested).  A Faulty port must stay Faulty (C14) -- see the finding harness.
#[kani::proof]
#[kani::unwind(34)]
#[kani::stub(PortActionIterator::from, PortActionIterator::verif_recording_from)]
#[kani::stub(crate::time::Interval::as_core_duration, stub_as_core_duration)]
#[kani::stub(core::time::Duration::mul_f64, stub_mul_f64)]
fn c08_announce_receipt_timeout() {
    let lock = ChkLock::new(any_instance_state(0));
    let tag: u8 = kani::any();
    kani::assume(tag >= 1 && tag < 5);
    mk_port!(port, &lock, port_state_with_tag(tag), Running);
    let pre = port_view(&port);
    let inst = instance_view(lock.peek());
    let slave_only = inst.default_ds.slave_only;

    let actions = run_actions!(port.handle_announce_receipt_timer());
    let post = port_view(&port);

    assert!(instance_view(lock.peek()) == inst);
    if slave_only {
        // C08: an instance configured slave-only never has a master port
        assert!(post.tag == 1);
        assert!(actions.n == 1 && actions.n_reset_announce_receipt == 1);
    } else {
        assert!(post.tag == 2);
        // C12: a port that becomes master is given its announce and sync timers
        assert!(actions.n == 2 && actions.n_reset_announce == 1 && actions.n_reset_sync == 1);
    }
    // C08/C13: leaving Slave replaces the filter and demobilizes the old one exactly once
    let left_slave = pre.tag == 4 && post.tag != 4;
    assert!(post.n_filter_demobilize == pre.n_filter_demobilize + left_slave as u32);
    assert!(post.n_filter_new == pre.n_filter_new + left_slave as u32);
    if !left_slave { assert!(post.filter == pre.filter); }
    assert!(post.peer == pre.peer && post.seq == pre.seq && post.clock == pre.clock && post.fm == pre.fm);
    kani::cover!(left_slave);
}

/// FINDING harness (expected to fail while the finding is open): a Faulty port must not become Master or
/// Listening through the announce receipt timeout (C14: faulty is left only after a single-responder exchange).
#[kani::proof]
#[kani::unwind(34)]
#[kani::stub(PortActionIterator::from, PortActionIterator::verif_recording_from)]
#[kani::stub(crate::time::Interval::as_core_duration, stub_as_core_duration)]
#[kani::stub(core::time::Duration::mul_f64, stub_mul_f64)]
fn c14_finding_receipt_timeout_leaves_faulty() {
    let lock = ChkLock::new(any_instance_state(0));
    mk_port!(port, &lock, PortState::Faulty, Running);
    let _ = run_actions!(port.handle_announce_receipt_timer());
    assert!(port_view(&port).tag == 0);
}

/// filter update timer: only the filter is consulted; role and exchange records unchanged
#[kani::proof]
#[kani::unwind(34)]
#[kani::stub(PortActionIterator::from, PortActionIterator::verif_recording_from)]
fn c03_filter_update_timer() {
    let lock = ChkLock::new(any_instance_state(0));
    mk_port!(port, &lock, any_port_state(), Running);
    let pre = port_view(&port);
    let inst = instance_view(lock.peek());
    let actions = run_actions!(port.handle_filter_update_timer());
    let post = port_view(&port);
    assert!(instance_view(lock.peek()) == inst);
    assert!(post.filter.n_update == pre.filter.n_update + 1 && post.filter.n_meas == pre.filter.n_meas);
    assert!(post.tag == pre.tag && post.slave == pre.slave && post.peer == pre.peer && post.seq == pre.seq);
    assert!(actions.n <= 1 && actions.n == actions.n_reset_filter_update);
}

// ============================================================================================ C05 / C08 / C11 / C12: applying the decision
fn any_recommended(d: &InternalDefaultDS) -> (u8, RecommendedState, AnnounceMessage) {
    let a = verif_fm::any_announce();
    let k: u8 = kani::any();
    kani::assume(k < 6);
    let r = match k {
        0 => RecommendedState::M1(*d),
        1 => RecommendedState::M2(*d),
        2 => RecommendedState::M3(a),
        3 => RecommendedState::P1(a),
        4 => RecommendedState::P2(a),
        _ => RecommendedState::S1(a),
    };
    (k, r, a)
}

/// timers a port in state `tag` depends on (taken from the clauses of C12):
/// Master: announce + sync; Slave: announce receipt + delay request; Listening / Passive: announce receipt.
/// bit0 announce, bit1 sync, bit2 announce-receipt, bit3 delay-request
fn needs(tag: u8) -> u8 {
    match tag { 2 => 0b0011, 4 => 0b1100, 1 | 3 => 0b0100, _ => 0 }
}
fn requested(a: &ActionSummary) -> u8 {
    (a.n_reset_announce > 0) as u8 | ((a.n_reset_sync > 0) as u8) << 1 | ((a.n_reset_announce_receipt > 0) as u8) << 2 | ((a.n_reset_delay_req > 0) as u8) << 3
}

/// set_recommended_state == IEEE 1588 Tables 30-33 with statime's documented rules, for every prior state,
/// every decision code, slave-only / master-only / multiport-disable; plus C12's timer contract and C08's roles.
#[kani::proof]
#[kani::unwind(34)]
#[kani::stub(PortActionIterator::from, PortActionIterator::verif_recording_from)]
#[kani::stub(crate::time::Interval::as_core_duration, stub_as_core_duration)]
#[kani::stub(core::time::Duration::mul_f64, stub_mul_f64)]
fn c05_apply_decision_port_state_and_data_sets() {
    let mut inst0 = any_instance_state(1);
    let lock = ChkLock::new(any_instance_state(0));
    let tag: u8 = kani::any();
    kani::assume(tag < 5);
    mk_port!(port, &lock, port_state_with_tag(tag), InBmca { pending_action: actions![], local_best: None });
    let default_ds = inst0.default_ds;
    let (k, rec, a) = any_recommended(&default_ds);
    // callers never hand S1 to a master-only port (c05_state_decision: S1 needs Erbest == Ebest incl. the
    // receiving port, and master-only ports contribute no Ebest) nor M1/M2 decisions of a foreign data set
    kani::assume(!(k == 5 && port.config.master_only));
    kani::assume(a.steps_removed < 65535);
    // open finding (C14): the multiport rule moves a Faulty port to Passive; isolated in
    // c14_finding_bmca_multiport_rule_leaves_faulty, excluded here so that any other deviation is still reported
    kani::assume(!(tag == 0 && k <= 2 && !default_ds.slave_only && port.multiport_disable.is_some()));
    let pre = port_view(&port);
    let pre_remote = pre.slave.map(|s| s.remote_master);
    let slave_only = default_ds.slave_only;
    let multiport = pre.multiport_disable.is_some();
    let mut path = inst0.path_trace_ds.clone();
    let mut tp = inst0.time_properties_ds;
    let mut cur = inst0.current_ds;
    let mut par = inst0.parent_ds.clone();
    lock.reset_counters();
    act::begin();

    port.set_recommended_state(rec, &mut path, &mut tp, &mut cur, &mut par, &default_ds);

    // C17: the BMCA holds the lock once and passes data sets by reference: no acquisition here
    assert!(lock.n_ref.get() == 0 && lock.n_mut.get() == 0);
    let post = port_view(&port);
    let pending = act::built_or_empty();

    // ---- port state (Tables 30-33 + documented deviations) ----
    let src = a.header.source_port_identity;
    let want_tag: u8 = match k {
        5 => if tag == 0 { 0 } else { 4 },
        0 | 1 | 2 => {
            if slave_only { if tag == 1 || tag == 0 { tag } else { 1 } }
            else if multiport { if tag == 0 { 0 } else { 3 } }
            else if tag == 2 || tag == 0 { tag } else { 2 }
        }
        _ => if tag == 3 || tag == 0 { tag } else { 3 },
    };
    assert!(post.tag == want_tag);
    // C14: no BMCA decision moves a Faulty port
    if tag == 0 { assert!(post.tag == 0); }
    // C08 roles
    if port.config.master_only { assert!(post.tag != 4); }
    if slave_only { assert!(post.tag != 2); }
    if k == 5 && post.tag == 4 {
        let s = post.slave.unwrap();
        assert!(s.remote_master == src);
        if pre_remote != Some(src) {
            // new parent: exchange records start empty
            assert!(s.sync_state == super::super::state::SyncState::Empty && s.delay_state == super::super::state::DelayState::Empty && s.last_raw_sync_offset.is_none());
        } else {
            assert!(post.slave == pre.slave);
        }
    }
    // C08/C13: filter replaced + demobilized exactly when a Slave state is left or replaced
    let left_slave = tag == 4 && (post.tag != 4 || pre_remote != Some(src) && k == 5);
    assert!(post.n_filter_demobilize == pre.n_filter_demobilize + left_slave as u32);
    // ---- C12: a changed state gets the timers it needs ----
    let changed = post.tag != tag || (k == 5 && tag == 4 && pre_remote != Some(src));
    if changed {
        let missing = needs(post.tag) & !needs(tag) & !requested(&pending);
        assert!(missing == 0);
    } else {
        assert!(pending.n == 0);
    }
    // ---- data sets (C11 / C05) ----
    match k {
        0 | 1 => {
            assert!(cur.steps_removed == 0);
            assert!(par.parent_port_identity.clock_identity == default_ds.clock_identity && par.parent_port_identity.port_number == 0);
            assert!(par.grandmaster_identity == default_ds.clock_identity && par.grandmaster_clock_quality == default_ds.clock_quality);
            assert!(par.grandmaster_priority_1 == default_ds.priority_1 && par.grandmaster_priority_2 == default_ds.priority_2);
            assert!(path.list.is_empty());
        }
        5 => {
            assert!(cur.steps_removed == a.steps_removed + 1);
            assert!(par.parent_port_identity == src && par.grandmaster_identity == a.grandmaster_identity);
            assert!(par.grandmaster_clock_quality == a.grandmaster_clock_quality);
            assert!(par.grandmaster_priority_1 == a.grandmaster_priority_1 && par.grandmaster_priority_2 == a.grandmaster_priority_2);
            assert!(tp == spec_time_properties(&a));
        }
        _ => {
            assert!(cur == inst0.current_ds && par == inst0.parent_ds && tp == inst0.time_properties_ds);
            assert!(path.list.len() == inst0.path_trace_ds.list.len());
        }
    }
    assert!(post.seq == pre.seq && post.peer == pre.peer && post.fm == pre.fm);
    kani::cover!(k == 5 && tag == 4 && pre_remote == Some(src));
    kani::cover!(changed && post.tag == 3);
    kani::cover!(changed && post.tag == 2);
    let _ = &mut inst0;
}

/// start_bmca / end_bmca move every field unchanged and hand back exactly the pending actions
#[kani::proof]
#[kani::unwind(34)]
#[kani::stub(PortActionIterator::from, PortActionIterator::verif_recording_from)]
fn c03_start_end_bmca_is_identity() {
    let lock = ChkLock::new(any_instance_state(0));
    mk_port!(port, &lock, any_port_state(), Running);
    let pre = port_view(&port);
    let inst = instance_view(lock.peek());
    let in_bmca = core::mem::ManuallyDrop::into_inner(port).start_bmca();
    assert!(port_view(&in_bmca) == pre);
    assert!(in_bmca.lifecycle.local_best.is_none());
    let (running, pending) = in_bmca.end_bmca();
    core::mem::forget(pending);
    assert!(port_view(&running) == pre);
    assert!(instance_view(lock.peek()) == inst);
    core::mem::forget(running);
}

// ============================================================================================ C19
/// the port snapshot equals the live port: identity, state (bijective on the five internal states,
/// numbered per IEEE 1588 Table 20), intervals, delay mechanism, versions, asymmetry, master-only.
#[kani::proof]
#[kani::unwind(34)]
#[kani::stub(PortActionIterator::from, PortActionIterator::verif_recording_from)]
fn c19_port_ds_matches_port() {
    use crate::observability::port as obs;
    let lock = ChkLock::new(any_instance_state(0));
    mk_port!(port, &lock, any_port_state(), Running);
    // mean delay / asymmetry within the wire range of a TimeInterval (|x| < 2^47 ns)
    if let Some(m) = port.mean_delay { kani::assume(dur_bits(m) > -(1i128 << 79) && dur_bits(m) < (1i128 << 79)); }
    kani::assume(dur_bits(port.config.delay_asymmetry) > -(1i128 << 79) && dur_bits(port.config.delay_asymmetry) < (1i128 << 79));
    let pre = port_view(&port);
    lock.reset_counters();
    let ds = port.port_ds();
    assert!(lock.n_ref.get() == 0 && lock.n_mut.get() == 0);
    assert!(port_view(&port) == pre);
    assert!(ds.port_identity == port.port_identity);
    let want_state = match pre.tag { 0 => obs::PortState::Faulty, 1 => obs::PortState::Listening, 2 => obs::PortState::Master, 3 => obs::PortState::Passive, _ => obs::PortState::Slave };
    assert!(ds.port_state == want_state);
    // Table 20 numbering
    assert!(ds.port_state as u8 == match pre.tag { 0 => 2, 1 => 4, 2 => 6, 3 => 7, _ => 9 });
    assert!(ds.log_announce_interval == port.config.announce_interval.as_log_2());
    assert!(ds.log_sync_interval == port.config.sync_interval.as_log_2());
    assert!(ds.announce_receipt_timeout == port.config.announce_receipt_timeout);
    assert!(ds.version_number == 2 && ds.minor_version_number == port.config.minor_ptp_version as u8);
    assert!(ds.master_only == port.config.master_only);
    // asymmetry: floor to 2^-16 ns (Verus: TimeInterval::from(Duration))
    assert!(ds.delay_asymmetry.0.to_bits() as i128 == dur_bits(port.config.delay_asymmetry) >> 16);
    match (port.config.delay_mechanism, ds.delay_mechanism) {
        (crate::config::DelayMechanism::E2E { interval }, obs::DelayMechanism::E2E { log_min_delay_req_interval }) => {
            assert!(log_min_delay_req_interval == interval.as_log_2());
        }
        (crate::config::DelayMechanism::P2P { interval }, obs::DelayMechanism::P2P { log_min_p_delay_req_interval, mean_link_delay }) => {
            assert!(log_min_p_delay_req_interval == interval.as_log_2());
            let want = pre.mean_delay.map(|m| (dur_bits(m) >> 16) as i64).unwrap_or(0);
            assert!(mean_link_delay.0.to_bits() == want);
        }
        _ => assert!(false),
    }
    // is_steering / is_master agree with the state
    assert!(port.is_steering() == (pre.tag == 4) && port.is_master() == (pre.tag == 2));
}


// ============================================================================================ C15: path trace
/// BOUND: the Announce carries exactly one TLV, a PATH_TRACE with up to 2 identities (the unbounded TLV
/// iteration is the Verus unit "tlv"; the > 128 entries case is c15_path_trace_loop_beyond_list_capacity).
/// With the path-trace option on, an Announce from the parent whose path contains the instance's own
/// identity is discarded (no effect); otherwise the received path is stored.
fn path_trace_case(min_n: usize, max_n: usize) {
    let mut inst0 = any_instance_state(1);
    inst0.path_trace_ds.enable = true;
    let own_clock = inst0.default_ds.clock_identity;
    let lock = ChkLock::new(inst0);
    mk_port!(port, &lock, PortState::Slave(any_slave_state()), Running);
    port.bmca = Bmca::new(AnyAccept { mode: 0, only: any_clock_identity() }, any_time_interval(), port.port_identity);
    let a = verif_fm::any_announce();
    kani::assume(steps_in_range(&a));
    let src = a.header.source_port_identity;
    kani::assume(src == lock.peek().parent_ds.parent_port_identity);
    kani::assume(src.clock_identity != port.port_identity.clock_identity);
    // one PATH_TRACE TLV with n <= 2 identities
    let n: usize = kani::any();
    kani::assume(n >= min_n && n <= max_n);
    let ids: [[u8; 8]; 2] = kani::any();
    let mut tlv = [0u8; 20];
    tlv[0] = 0x00; tlv[1] = 0x08; tlv[2] = 0; tlv[3] = (8 * n) as u8;
    let mut k = 0;
    while k < 16 { tlv[4 + k] = ids[k / 8][k % 8]; k += 1; }
    let suffix = TlvSet::deserialize(&tlv[..4 + 8 * n]);
    // (a set that ends in a zero-length TLV is rejected by the parser: n == 0 yields no message)
    kani::assume(suffix.is_ok());
    let m = announce_msg(a, suffix.unwrap());
    let pre = port_view(&port);
    let inst = instance_view(lock.peek());
    let loops = (n >= 1 && ids[0] == own_clock.0) || (n >= 2 && ids[1] == own_clock.0);

    let actions = run_actions!(port.handle_announce(&m, a));
    let now = instance_view(lock.peek());
    if loops {
        // discarded: as if it had never arrived
        assert!(actions.n == 0);
        assert!(port_view(&port) == pre);
        assert!(now == inst);
    } else {
        assert!(now.path_len == n);
        if n >= 1 { assert!(now.path0 == Some(ClockIdentity(ids[0]))); }
        if n >= 2 { assert!(now.path1 == Some(ClockIdentity(ids[1]))); }
        assert!(now.current_ds.steps_removed == a.steps_removed + 1);
        assert!(actions.n_reset_announce_receipt == 1);
    }
    kani::cover!(loops);
    kani::cover!(!loops);
}
#[kani::proof]
#[kani::unwind(34)]
#[kani::stub(PortActionIterator::from, PortActionIterator::verif_recording_from)]
#[kani::stub(crate::time::Interval::as_core_duration, stub_as_core_duration)]
#[kani::stub(core::time::Duration::mul_f64, stub_mul_f64)]
#[kani::stub(<Duration as core::ops::Div<i32>>::div, stub_div_by_two)]
#[kani::stub(<Duration as core::ops::Div<f64>>::div, stub_div_by_two)]
#[kani::stub(<Duration as core::ops::Mul<u16>>::mul, verif_fm::stub_mul_window)]
fn c15_path_trace_store_and_loop_discard() { path_trace_case(1, 2) }
/// quick instance: exactly one identity in the PATH_TRACE TLV
#[kani::proof]
#[kani::unwind(34)]
#[kani::stub(PortActionIterator::from, PortActionIterator::verif_recording_from)]
#[kani::stub(crate::time::Interval::as_core_duration, stub_as_core_duration)]
#[kani::stub(core::time::Duration::mul_f64, stub_mul_f64)]
#[kani::stub(<Duration as core::ops::Div<i32>>::div, stub_div_by_two)]
#[kani::stub(<Duration as core::ops::Div<f64>>::div, stub_div_by_two)]
#[kani::stub(<Duration as core::ops::Mul<u16>>::mul, verif_fm::stub_mul_window)]
fn c15_path_trace_one_entry() { path_trace_case(1, 1) }


static mut LP_REGISTER_CALLS: u32 = 0;
impl<A: AcceptableMasterList> Bmca<A> {
    /// recording stand-in for Bmca::register_announce_message (contract: c06_reregister_hands_age_to_list):
    /// here only "was the Announce handed on at all" matters
    pub(crate) fn verif_lp_register(&mut self, _header: &Header, _announce_message: &AnnounceMessage) -> bool {
        unsafe { LP_REGISTER_CALLS += 1; }
        false
    }
}

/// CONCRETE-SHAPE INSTANCE beyond the path-trace list capacity: a PATH_TRACE TLV with 129 identities (1032 octets;
/// the 1100-octet Announce fits the daemon's 2048-octet buffer): 128 fixed filler identities followed by one that
/// is the instance's own identity or not. The loop check must look at EVERY identity of the TLV, not only at the
/// 128 that fit the stored list: own identity at index 128 => discarded (data sets untouched, not handed to the
/// BMCA); otherwise the first 128 are stored. The own clock identity is fixed (AB..AB); Bmca registration is
/// replaced by a recording stub.
/// NOT DISCHARGED: CBMC does not finish within 30 min (unwinding 132 for the 129 chunk comparisons applies to
/// every loop of the harness); kept un-registered for a bigger machine. Consequence, stated in DESIGN (section 5
/// C15, section 8 seed C15-3): the loop check is proved for PATH_TRACE TLVs of <= 2 identities only.
// #[kani::proof] #[kani::unwind(132)]
// #[kani::stub(PortActionIterator::from, PortActionIterator::verif_recording_from)]
// #[kani::stub(Bmca::register_announce_message, Bmca::verif_lp_register)]
#[allow(dead_code)]
fn c15_path_trace_loop_beyond_list_capacity() {
    const N: usize = 129;
    let mut inst0 = any_instance_state(0);
    inst0.path_trace_ds.enable = true;
    inst0.default_ds.clock_identity = ClockIdentity([0xAB; 8]);
    let own_clock = inst0.default_ds.clock_identity;
    let lock = ChkLock::new(inst0);
    mk_port!(port, &lock, PortState::Slave(any_slave_state()), Running);
    let a = verif_fm::any_announce();
    kani::assume(steps_in_range(&a));
    let src = a.header.source_port_identity;
    kani::assume(src == lock.peek().parent_ds.parent_port_identity);
    let mut tlv = [0u8; 4 + 8 * N];
    tlv[0] = 0x00; tlv[1] = 0x08; tlv[2] = ((8 * N) >> 8) as u8; tlv[3] = ((8 * N) & 0xff) as u8;
    let mut k = 0;
    while k < N - 1 {
        tlv[4 + 8 * k] = 0xF0;
        tlv[4 + 8 * k + 7] = k as u8;
        k += 1;
    }
    let last_is_own: bool = kani::any();
    let mut j = 0;
    while j < 8 {
        tlv[4 + 8 * (N - 1) + j] = if last_is_own { own_clock.0[j] } else if j == 0 { 0xF0 } else { 0xEE };
        j += 1;
    }
    let suffix = TlvSet::deserialize(&tlv[..]);
    kani::assume(suffix.is_ok());
    let m = announce_msg(a, suffix.unwrap());
    let inst = instance_view(lock.peek());
    unsafe { LP_REGISTER_CALLS = 0; }

    let actions = run_actions!(port.handle_announce(&m, a));
    let now = instance_view(lock.peek());
    if last_is_own {
        assert!(actions.n == 0);
        assert!(now == inst);
        assert!(unsafe { LP_REGISTER_CALLS } == 0);
    } else {
        assert!(now.path_len == 128);
        assert!(now.path0 == Some(ClockIdentity([0xF0, 0, 0, 0, 0, 0, 0, 0])));
        assert!(now.path1 == Some(ClockIdentity([0xF0, 0, 0, 0, 0, 0, 0, 1])));
        assert!(unsafe { LP_REGISTER_CALLS } == 1);
    }
    kani::cover!(last_is_own);
    kani::cover!(!last_is_own);
}


/// FINDING harness (expected to fail while the finding is open): the BMCA's multiport rule (decision M1/M2/M3
/// while a lower-numbered port of the same instance was heard) must not move a Faulty port to Passive.
#[kani::proof]
#[kani::unwind(34)]
#[kani::stub(PortActionIterator::from, PortActionIterator::verif_recording_from)]
#[kani::stub(crate::time::Interval::as_core_duration, stub_as_core_duration)]
#[kani::stub(core::time::Duration::mul_f64, stub_mul_f64)]
fn c14_finding_bmca_multiport_rule_leaves_faulty() {
    let lock = ChkLock::new(any_instance_state(0));
    mk_port!(port, &lock, PortState::Faulty, InBmca { pending_action: actions![], local_best: None });
    let mut default_ds = any_default_ds();
    default_ds.slave_only = false;
    port.multiport_disable = Some(dur_from_bits(0));
    let mut inst0 = any_instance_state(0);
    port.set_recommended_state(RecommendedState::M1(default_ds), &mut inst0.path_trace_ds, &mut inst0.time_properties_ds, &mut inst0.current_ds, &mut inst0.parent_ds, &default_ds);
    assert!(port_view(&port).tag == 0);
}

/// FINDING harness (expected to fail while the finding is open): an accepted Announce from a lower-numbered port
/// of the same instance must not move a Faulty port to Passive.
#[kani::proof]
#[kani::unwind(34)]
#[kani::stub(PortActionIterator::from, PortActionIterator::verif_recording_from)]
#[kani::stub(crate::time::Interval::as_core_duration, stub_as_core_duration)]
#[kani::stub(core::time::Duration::mul_f64, stub_mul_f64)]
#[kani::stub(<Duration as core::ops::Div<i32>>::div, stub_div_by_two)]
#[kani::stub(<Duration as core::ops::Div<f64>>::div, stub_div_by_two)]
#[kani::stub(<Duration as core::ops::Mul<u16>>::mul, verif_fm::stub_mul_window)]
fn c14_finding_announce_multiport_rule_leaves_faulty() {
    let lock = ChkLock::new(any_instance_state(0));
    mk_port!(port, &lock, PortState::Faulty, Running);
    port.bmca = Bmca::new(AnyAccept { mode: 0, only: any_clock_identity() }, any_time_interval(), port.port_identity);
    let a = verif_fm::any_announce();
    let m = announce_msg(a, TlvSet::default());
    let _ = run_actions!(port.handle_announce(&m, a));
    assert!(port_view(&port).tag == 0);
}


// ============================================================================================ C05/C06/C08
// INSTANCE-LEVEL COMPOSITION of the BMCA (PtpInstance::bmca -> PtpInstanceState::bmca), checked modularly: every
// port-level and decision-level callee is replaced by a recording stub standing for its own contract
// (take_best: c06_take_best_*; find_best: c05_find_best_*; calculate_recommended_state: c05_state_decision_*;
// set_recommended_state: c05_apply_decision_*; step_announce_age: c06_step_announce_age_*), and the instance
// code is checked to call them for EVERY port, in the right order, with the right arguments.
use crate::bmc::bmca::BestAnnounceMessage;
static mut IB_PHASE_OK: bool = true;
static mut IB_CALC: [u32; 2] = [0; 2];
static mut IB_QUERIED: bool = false;
static mut IB_FOR_BMCA: [Option<BestAnnounceMessage>; 2] = [None; 2];
static mut IB_FOR_STATE: [Option<BestAnnounceMessage>; 2] = [None; 2];
static mut IB_DECISION: [u8; 2] = [0; 2];
static mut IB_CRS_CALLS: usize = 0;
static mut IB_CRS_EBEST: [Option<BestAnnounceMessage>; 2] = [None; 2];
static mut IB_CRS_ERBEST: [Option<BestAnnounceMessage>; 2] = [None; 2];
static mut IB_CRS_TAG_OK: bool = true;
static mut IB_CRS_TAGS: [u8; 2] = [9; 2];
static mut IB_SET: [u32; 2] = [0; 2];
static mut IB_SET_CODE: [u8; 2] = [0; 2];
static mut IB_SET_AFTER_CRS: bool = true;
static mut IB_STEP: [u32; 2] = [0; 2];
static mut IB_STEP_ARG: [i128; 2] = [0; 2];
static mut IB_STEP_LAST: bool = true;
static mut IB_INTERVAL: i128 = 0;
static mut IB_M3: Option<AnnounceMessage> = None;

fn ib_stub_from_seconds(_secs: f64) -> Duration { dur_from_bits(unsafe { IB_INTERVAL }) }
fn ib_tag(s: &PortState) -> u8 {
    match s { PortState::Faulty => 0, PortState::Listening => 1, PortState::Master => 2, PortState::Passive => 3, PortState::Slave(_) => 4 }
}
fn ib_code(r: &RecommendedState) -> u8 {
    match r { RecommendedState::M1(_) => 1, RecommendedState::M2(_) => 2, RecommendedState::M3(_) => 3, RecommendedState::P1(_) => 4, RecommendedState::P2(_) => 5, RecommendedState::S1(_) => 6 }
}

impl<A: AcceptableMasterList, C: Clock, F: Filter, R: Rng, S: PtpInstanceStateMutex> Port<'_, InBmca, A, R, C, F, S> {
    pub(crate) fn verif_ib_calc_best(&mut self) {
        let i = (self.port_identity.port_number - 1) as usize;
        unsafe {
            // Erbest of every port is taken before any of them is asked for it
            if IB_QUERIED { IB_PHASE_OK = false; }
            IB_CALC[i] += 1;
        }
    }
}
impl<A, C: Clock, F: Filter, R: Rng, S: PtpInstanceStateMutex> Port<'_, InBmca, A, R, C, F, S> {
    pub(crate) fn verif_ib_for_bmca(&self) -> Option<BestAnnounceMessage> {
        let i = (self.port_identity.port_number - 1) as usize;
        unsafe { IB_QUERIED = true; IB_FOR_BMCA[i] }
    }
    pub(crate) fn verif_ib_for_state(&self) -> Option<BestAnnounceMessage> {
        let i = (self.port_identity.port_number - 1) as usize;
        unsafe { IB_QUERIED = true; IB_FOR_STATE[i] }
    }
    pub(crate) fn verif_ib_set_recommended_state(
        &mut self,
        recommended_state: RecommendedState,
        _path_trace_ds: &mut PathTraceDS,
        _time_properties_ds: &mut TimePropertiesDS,
        _current_ds: &mut InternalCurrentDS,
        _parent_ds: &mut InternalParentDS,
        _default_ds: &InternalDefaultDS,
    ) {
        let i = (self.port_identity.port_number - 1) as usize;
        unsafe {
            IB_SET[i] += 1;
            IB_SET_CODE[i] = ib_code(&recommended_state);
            // the decision applied to port i is the one computed for port i (the i-th decision call came first)
            if IB_CRS_CALLS != i + 1 { IB_SET_AFTER_CRS = false; }
            // ageing comes after all decisions
            if IB_STEP[0] + IB_STEP[1] > 0 { IB_STEP_LAST = false; }
        }
    }
    pub(crate) fn verif_ib_step_announce_age(&mut self, step: Duration) {
        let i = (self.port_identity.port_number - 1) as usize;
        unsafe {
            IB_STEP[i] += 1;
            IB_STEP_ARG[i] = dur_bits(step);
            if IB_CRS_CALLS != 2 { IB_STEP_LAST = false; }
        }
    }
}
impl<A> Bmca<A> {
    pub(crate) fn verif_ib_calculate_recommended_state(
        own_data: &InternalDefaultDS,
        best_global_announce_message: Option<BestAnnounceMessage>,
        best_port_announce_message: Option<BestAnnounceMessage>,
        port_state: &PortState,
    ) -> Option<RecommendedState> {
        unsafe {
            let k = IB_CRS_CALLS;
            IB_CRS_CALLS += 1;
            if k >= 2 { IB_PHASE_OK = false; return None; }
            IB_CRS_EBEST[k] = best_global_announce_message;
            IB_CRS_ERBEST[k] = best_port_announce_message;
            if ib_tag(port_state) != IB_CRS_TAGS[k] { IB_CRS_TAG_OK = false; }
            match IB_DECISION[k] {
                0 => None,
                1 => Some(RecommendedState::M1(*own_data)),
                _ => Some(RecommendedState::M3(IB_M3.unwrap())),
            }
        }
    }
}

#[kani::proof]
#[kani::unwind(34)]
#[kani::stub(PortActionIterator::from, PortActionIterator::verif_recording_from)]
#[kani::stub(Duration::from_seconds, ib_stub_from_seconds)]
#[kani::stub(Port::calculate_best_local_announce_message, Port::verif_ib_calc_best)]
#[kani::stub(Port::best_local_announce_message_for_bmca, Port::verif_ib_for_bmca)]
#[kani::stub(Port::best_local_announce_message_for_state, Port::verif_ib_for_state)]
#[kani::stub(Port::set_recommended_state, Port::verif_ib_set_recommended_state)]
#[kani::stub(Port::step_announce_age, Port::verif_ib_step_announce_age)]
#[kani::stub(Bmca::calculate_recommended_state, Bmca::verif_ib_calculate_recommended_state)]
#[kani::stub(Bmca::find_best_announce_message, Bmca::verif_stub_find_best)]
fn c05_instance_bmca_visits_every_port() {
    let inst = crate::ptp_instance::verif_inst::any_instance_with_log(0, 0);
    let lock = crate::ptp_instance::verif_inst::state_of(&inst);
    // the host passes all ports of the instance (documented API contract): two ports
    kani::assume(lock.peek().default_ds.number_ports == 2);
    mk_port!(p1, lock, any_port_state(), InBmca { pending_action: actions![], local_best: None });
    mk_port!(p2, lock, any_port_state(), InBmca { pending_action: actions![], local_best: None });
    kani::assume(p1.port_identity.port_number == 1 && p2.port_identity.port_number == 2);
    let interval: i128 = kani::any();
    kani::assume(interval > 0 && interval < (1i128 << 100));
    let b = [if kani::any() { Some(verif_bmca::any_best()) } else { None }, if kani::any() { Some(verif_bmca::any_best()) } else { None }];
    let s = [if kani::any() { Some(verif_bmca::any_best()) } else { None }, if kani::any() { Some(verif_bmca::any_best()) } else { None }];
    let dec: [u8; 2] = [kani::any(), kani::any()];
    kani::assume(dec[0] <= 2 && dec[1] <= 2);
    unsafe {
        IB_INTERVAL = interval;
        IB_FOR_BMCA = b;
        IB_FOR_STATE = s;
        IB_DECISION = dec;
        IB_M3 = Some(verif_fm::any_announce());
        IB_CRS_TAGS = [ib_tag(&p1.port_state), ib_tag(&p2.port_state)];
    }
    let pre1 = port_view(&p1);
    let pre2 = port_view(&p2);
    let inst0 = instance_view(lock.peek());
    lock.reset_counters();

    {
        let mut ports = [&mut *p1, &mut *p2];
        inst.bmca(&mut ports);
    }

    // C17: the whole BMCA run is one write acquisition
    assert!(lock.n_mut.get() == 1 && lock.n_ref.get() == 0);
    unsafe {
        assert!(IB_PHASE_OK && IB_CRS_TAG_OK && IB_SET_AFTER_CRS && IB_STEP_LAST);
        // Erbest of every port is (re)computed exactly once
        assert!(IB_CALC[0] == 1 && IB_CALC[1] == 1);
        // one decision per port, all with the same Ebest, which is one of the ports' candidates (None iff none),
        // each with that port's own Erbest and current state
        assert!(IB_CRS_CALLS == 2);
        assert!(IB_CRS_EBEST[0] == IB_CRS_EBEST[1]);
        let e = IB_CRS_EBEST[0];
        assert!(e.is_some() == (b[0].is_some() || b[1].is_some()));
        if e.is_some() { assert!(e == b[0] || e == b[1]); }
        assert!(IB_CRS_ERBEST[0] == s[0] && IB_CRS_ERBEST[1] == s[1]);
        // a decision is applied to exactly the port it was computed for; "no recommendation" applies nothing
        assert!(IB_SET[0] == (dec[0] != 0) as u32 && IB_SET[1] == (dec[1] != 0) as u32);
        if dec[0] != 0 { assert!(IB_SET_CODE[0] == if dec[0] == 1 { 1 } else { 3 }); }
        if dec[1] != 0 { assert!(IB_SET_CODE[1] == if dec[1] == 1 { 1 } else { 3 }); }
        // EVERY port's foreign-master records age by the BMCA interval, exactly once, whatever was decided (C06)
        assert!(IB_STEP[0] == 1 && IB_STEP[1] == 1);
        assert!(IB_STEP_ARG[0] == interval && IB_STEP_ARG[1] == interval);
    }
    // the instance-level code itself touches nothing else
    assert!(port_view(&p1) == pre1 && port_view(&p2) == pre2);
    assert!(instance_view(lock.peek()) == inst0);
    kani::cover!(dec[0] == 0 && dec[1] != 0);
    kani::cover!(b[0].is_none() && b[1].is_some());
}


// ---- contracts of the port-level callees that the instance harness replaces by stubs ----
static mut PB_TAKE_BEST: Option<BestAnnounceMessage> = None;
static mut PB_TAKE_CALLS: u32 = 0;
static mut PB_AGE_CALLS: u32 = 0;
static mut PB_AGE_ARG: i128 = 0;
static mut PB_INTERVAL_DUR: i128 = 0;
impl<A: AcceptableMasterList> Bmca<A> {
    pub(crate) fn verif_pb_take_best(&mut self) -> Option<BestAnnounceMessage> {
        unsafe { PB_TAKE_CALLS += 1; PB_TAKE_BEST }
    }
}
impl<A> Bmca<A> {
    pub(crate) fn verif_pb_step_age(&mut self, step: Duration) {
        unsafe { PB_AGE_CALLS += 1; PB_AGE_ARG = dur_bits(step); }
    }
}
/// stand-in for Interval::as_duration (2^n s as a Duration; exactness is C16's log-interval clause): an
/// arbitrary positive duration chosen by the harness
fn pb_stub_interval_as_duration(_i: crate::time::Interval) -> Duration { dur_from_bits(unsafe { PB_INTERVAL_DUR }) }

/// calculate_best_local_announce_message: local_best := take_best_port_announce_message() (one call), frame;
/// best_local_announce_message_for_state = local_best; ..._for_bmca = local_best unless the port is master-only
/// or Faulty (9.2.2.2: Announces received on a masterOnly port do not take part in the global BMCA; C14: a
/// faulty port contributes nothing).
#[kani::proof]
#[kani::unwind(34)]
#[kani::stub(PortActionIterator::from, PortActionIterator::verif_recording_from)]
#[kani::stub(Bmca::take_best_port_announce_message, Bmca::verif_pb_take_best)]
fn c05_port_erbest_accessors() {
    let lock = ChkLock::new(any_instance_state(0));
    mk_port!(port, &lock, any_port_state(), InBmca { pending_action: actions![], local_best: if kani::any() { Some(verif_bmca::any_best()) } else { None } });
    let best = if kani::any() { Some(verif_bmca::any_best()) } else { None };
    unsafe { PB_TAKE_BEST = best; PB_TAKE_CALLS = 0; }
    let pre = port_view(&port);
    let inst = instance_view(lock.peek());
    lock.reset_counters();
    port.calculate_best_local_announce_message();
    assert!(unsafe { PB_TAKE_CALLS } == 1);
    assert!(port.lifecycle.local_best == best);
    assert!(port_view(&port) == pre && instance_view(lock.peek()) == inst);
    assert!(port.best_local_announce_message_for_state() == best);
    let hidden = port.config.master_only || pre.tag == 0;
    assert!(port.best_local_announce_message_for_bmca() == if hidden { None } else { best });
    assert!(lock.n_mut.get() == 0 && lock.n_ref.get() == 0);
    assert!(port_view(&port) == pre);
    kani::cover!(hidden && best.is_some());
    kani::cover!(!hidden && best.is_some());
}

/// step_announce_age(step): the foreign-master records age by exactly `step` (one call of Bmca::step_age, which
/// is ForeignMasterList::step_age: c06_list_step_age_*), and the multiport-disable marker ages by `step` too and
/// is dropped once it has reached one announce interval; nothing else changes.
#[kani::proof]
#[kani::unwind(34)]
#[kani::stub(PortActionIterator::from, PortActionIterator::verif_recording_from)]
#[kani::stub(Bmca::step_age, Bmca::verif_pb_step_age)]
#[kani::stub(crate::time::Interval::as_duration, pb_stub_interval_as_duration)]
fn c06_step_announce_age_ages_records_and_marker() {
    let lock = ChkLock::new(any_instance_state(0));
    mk_port!(port, &lock, any_port_state(), InBmca { pending_action: actions![], local_best: None });
    let step: i128 = kani::any();
    kani::assume(step >= 0 && step < (1i128 << 100));
    let ivl: i128 = kani::any();
    kani::assume(ivl > 0 && ivl < (1i128 << 100));
    if let Some(a) = port.multiport_disable { kani::assume(dur_bits(a) >= 0 && dur_bits(a) < (1i128 << 100)); }
    unsafe { PB_AGE_CALLS = 0; PB_INTERVAL_DUR = ivl; }
    let pre = port_view(&port);
    let inst = instance_view(lock.peek());
    lock.reset_counters();

    port.step_announce_age(dur_from_bits(step));

    assert!(unsafe { PB_AGE_CALLS } == 1 && unsafe { PB_AGE_ARG } == step);
    let mut want = pre;
    want.multiport_disable = match pre.multiport_disable {
        Some(a) if dur_bits(a) + step < ivl => Some(dur_from_bits(dur_bits(a) + step)),
        _ => None,
    };
    assert!(port_view(&port) == want);
    assert!(instance_view(lock.peek()) == inst && lock.n_mut.get() == 0 && lock.n_ref.get() == 0);
    kani::cover!(pre.multiport_disable.is_some() && want.multiport_disable.is_some());
    kani::cover!(pre.multiport_disable.is_some() && want.multiport_disable.is_none());
}
