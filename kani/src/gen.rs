//! Crate-root helper module (injected into statime/src/lib.rs under cfg(kani)):
//! generators of arbitrary values for types that have no `kani::Arbitrary` impl.
#![allow(dead_code, unused_imports, missing_docs)]
use crate::datastructures::common::{
    ClockAccuracy, ClockIdentity, ClockQuality, PortIdentity, TimeInterval, TimeSource, WireTimestamp,
};
use crate::datastructures::messages::{Header, MessageType, PtpVersion, SdoId};
use fixed::types::I48F16;

pub(crate) fn any_clock_identity() -> ClockIdentity {
    ClockIdentity(kani::any())
}
pub(crate) fn any_port_identity() -> PortIdentity {
    PortIdentity { clock_identity: any_clock_identity(), port_number: kani::any() }
}
pub(crate) fn any_time_interval() -> TimeInterval {
    TimeInterval(I48F16::from_bits(kani::any()))
}
pub(crate) fn any_wire_timestamp() -> WireTimestamp {
    // every value the wire can carry: 48-bit seconds, 32-bit nanoseconds field
    let seconds: u64 = kani::any();
    kani::assume(seconds < (1u64 << 48));
    WireTimestamp { seconds, nanos: kani::any() }
}
pub(crate) fn any_sdo_id() -> SdoId {
    let v: u16 = kani::any();
    kani::assume(v <= 0xfff);
    SdoId::try_from(v).unwrap()
}
pub(crate) fn any_version() -> PtpVersion {
    let major: u8 = kani::any();
    let minor: u8 = kani::any();
    kani::assume(major < 16 && minor < 16);
    PtpVersion::new(major, minor).unwrap()
}
pub(crate) fn any_message_type() -> MessageType {
    let c: u8 = kani::any();
    kani::assume(c < 10);
    match c {
        0 => MessageType::Sync,
        1 => MessageType::DelayReq,
        2 => MessageType::PDelayReq,
        3 => MessageType::PDelayResp,
        4 => MessageType::FollowUp,
        5 => MessageType::DelayResp,
        6 => MessageType::PDelayRespFollowUp,
        7 => MessageType::Announce,
        8 => MessageType::Signaling,
        _ => MessageType::Management,
    }
}
/// every Header the library can hold (sdoId 12 bit, version nibbles)
pub(crate) fn any_header() -> Header {
    Header {
        sdo_id: any_sdo_id(),
        version: any_version(),
        domain_number: kani::any(),
        alternate_master_flag: kani::any(),
        two_step_flag: kani::any(),
        unicast_flag: kani::any(),
        ptp_profile_specific_1: kani::any(),
        ptp_profile_specific_2: kani::any(),
        leap61: kani::any(),
        leap59: kani::any(),
        current_utc_offset_valid: kani::any(),
        ptp_timescale: kani::any(),
        time_tracable: kani::any(),
        frequency_tracable: kani::any(),
        synchronization_uncertain: kani::any(),
        correction_field: any_time_interval(),
        source_port_identity: any_port_identity(),
        sequence_id: kani::any(),
        log_message_interval: kani::any(),
    }
}
/// ClockAccuracy as decoded from any octet (the representation invariant of the type:
/// ProfileSpecific(v) has v <= 0x7d; values outside it only arise from mis-configuration)
pub(crate) fn any_clock_accuracy() -> ClockAccuracy {
    ClockAccuracy::from_primitive(kani::any())
}
pub(crate) fn any_time_source() -> TimeSource {
    TimeSource::from_primitive(kani::any())
}
pub(crate) fn any_clock_quality() -> ClockQuality {
    ClockQuality {
        clock_class: kani::any(),
        clock_accuracy: any_clock_accuracy(),
        offset_scaled_log_variance: kani::any(),
    }
}

/// Stub for `log::max_level()`: the value the `log` crate has when no logger raised it (Off).
/// Kani models the atomic load behind it as arbitrary, which would drag every `{:?}` / `{}` formatter
/// of the log statements (128-bit decimal conversion of fixed-point numbers) into each formula.
/// Assumption recorded in the evidence: formatting code of log statements is not verified.
pub(crate) fn stub_log_off() -> log::LevelFilter {
    log::LevelFilter::Off
}
