//! child module of port::actions: observe returned action sets *at construction* instead of by draining
//! the iterator (draining `Fuse<arrayvec::IntoIter<PortAction, 2>>` by value costs CBMC > 1 min per harness).
//!
//! `recording_from` is used as a Kani stub for `PortActionIterator::from`; its construction part is textually
//! the body of the original (the driver checks the original's text, lost anchor => undecided) and it
//! additionally records a summary of the list in `LAST`. Every handler builds exactly one action list per
//! call on the paths that return it (`N_BUILT` lets each harness assert that).
#![allow(dead_code, unused_imports, missing_docs, static_mut_refs)]
use super::*;
use crate::datastructures::messages::MAX_DATA_LEN;

/// a frame found in an action: its length and addressing (its content is recorded at serialization, see
/// datastructures::messages::verif_kani_msg::verif_recording_serialize)
#[derive(Clone, Copy, PartialEq, Debug)]
pub(crate) struct Frame {
    pub(crate) len: usize,
    pub(crate) link_local: bool,
}
#[derive(Clone, Copy, PartialEq, Debug)]
pub(crate) struct ActionSummary {
    pub(crate) n: u8,
    pub(crate) n_send_event: u8,
    pub(crate) n_send_general: u8,
    pub(crate) n_reset_announce: u8,
    pub(crate) n_reset_sync: u8,
    pub(crate) n_reset_delay_req: u8,
    pub(crate) n_reset_announce_receipt: u8,
    pub(crate) n_reset_filter_update: u8,
    pub(crate) n_forward_tlv: u8,
    pub(crate) event: Option<Frame>,
    pub(crate) general: Option<Frame>,
    /// timestamp context of the event send: kind 0 Sync, 1 DelayReq, 2 PDelayReq, 3 PDelayResp, 0xff none
    pub(crate) ctx_kind: u8,
    pub(crate) ctx_id: u16,
    pub(crate) ctx_requestor: Option<PortIdentity>,
}
pub(crate) const EMPTY: ActionSummary = ActionSummary {
    n: 0, n_send_event: 0, n_send_general: 0, n_reset_announce: 0, n_reset_sync: 0, n_reset_delay_req: 0,
    n_reset_announce_receipt: 0, n_reset_filter_update: 0, n_forward_tlv: 0, event: None, general: None,
    ctx_kind: 0xff, ctx_id: 0, ctx_requestor: None,
};
pub(crate) static mut LAST: ActionSummary = EMPTY;
pub(crate) static mut N_BUILT: u32 = 0;

fn frame_of(data: &[u8], link_local: bool) -> Frame {
    Frame { len: data.len(), link_local }
}
fn note(s: &mut ActionSummary, a: &PortAction<'_>) {
    s.n += 1;
    match a {
        PortAction::SendEvent { context, data, link_local } => {
            s.n_send_event += 1;
            s.event = Some(frame_of(data, *link_local));
            match &context.inner {
                TimestampContextInner::Sync { id } => { s.ctx_kind = 0; s.ctx_id = *id; }
                TimestampContextInner::DelayReq { id } => { s.ctx_kind = 1; s.ctx_id = *id; }
                TimestampContextInner::PDelayReq { id } => { s.ctx_kind = 2; s.ctx_id = *id; }
                TimestampContextInner::PDelayResp { id, requestor_identity } => {
                    s.ctx_kind = 3; s.ctx_id = *id; s.ctx_requestor = Some(*requestor_identity);
                }
            }
        }
        PortAction::SendGeneral { data, link_local } => {
            s.n_send_general += 1;
            s.general = Some(frame_of(data, *link_local));
        }
        PortAction::ResetAnnounceTimer { .. } => s.n_reset_announce += 1,
        PortAction::ResetSyncTimer { .. } => s.n_reset_sync += 1,
        PortAction::ResetDelayRequestTimer { .. } => s.n_reset_delay_req += 1,
        PortAction::ResetAnnounceReceiptTimer { .. } => s.n_reset_announce_receipt += 1,
        PortAction::ResetFilterUpdateTimer { .. } => s.n_reset_filter_update += 1,
        PortAction::ForwardTLV { .. } => s.n_forward_tlv += 1,
    }
}

impl<'a> PortActionIterator<'a> {
/// stub for `PortActionIterator::from`
pub(crate) fn verif_recording_from(list: ArrayVec<PortAction<'a>, MAX_ACTIONS>) -> PortActionIterator<'a> {
    let mut s = EMPTY;
    if list.len() >= 1 { note(&mut s, &list[0]); }
    if list.len() >= 2 { note(&mut s, &list[1]); }
    unsafe {
        LAST = s;
        N_BUILT = N_BUILT.wrapping_add(1);
    }
    // ---- body of the original PortActionIterator::from ----
    PortActionIterator {
        internal: list.into_iter().fuse(),
        tlvs: TlvSetIterator::empty(),
        sender_identity: Default::default(),
    }
}
}

/// harness side: reset before the call ...
pub(crate) fn begin() {
    unsafe { LAST = EMPTY; N_BUILT = 0; }
}
/// ... and read after it. The returned iterator is forgotten (its drop glue is not part of any property).
pub(crate) fn taken<'a>(it: PortActionIterator<'a>) -> ActionSummary {
    core::mem::forget(it);
    unsafe {
        // exactly one action list was built by the call and it is the one that was returned
        assert!(N_BUILT == 1);
        LAST
    }
}
/// for action lists that are stored rather than returned (InBmca::pending_action): the list built during the
/// call, or the empty summary if none was built
pub(crate) fn built_or_empty() -> ActionSummary {
    unsafe {
        assert!(N_BUILT <= 1);
        if N_BUILT == 1 { LAST } else { EMPTY }
    }
}
/// the iterator also carries the TLVs to forward (set by with_forward_tlvs): length of the TLV bytes and the sender
pub(crate) fn forward_tlv_bytes<'a>(it: &PortActionIterator<'a>) -> (usize, PortIdentity) {
    (it.tlvs.verif_len(), it.sender_identity)
}

/// the iterator contract itself (C10: at most MAX_ACTIONS = 2 base actions, then only ForwardTLV actions)
#[kani::proof]
#[kani::unwind(4)]
fn c10_action_iterator_yields_list_then_ends() {
    let mut list: ArrayVec<PortAction<'static>, MAX_ACTIONS> = ArrayVec::new();
    let n: u8 = kani::any();
    kani::assume(n <= 2);
    if n >= 1 { list.push(PortAction::ResetSyncTimer { duration: core::time::Duration::from_secs(1) }); }
    if n >= 2 { list.push(PortAction::ResetAnnounceTimer { duration: core::time::Duration::from_secs(2) }); }
    let mut it = PortActionIterator::from(list);
    let mut count = 0;
    let mut k = 0;
    while k < 3 {
        if let Some(a) = it.next() { count += 1; core::mem::forget(a); }
        k += 1;
    }
    assert!(count == n);
    assert!(it.next().is_none());
    core::mem::forget(it);
    assert!(MAX_ACTIONS == 2);
}
