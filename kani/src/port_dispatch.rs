//! C07 / C03 unit "dispatch": parse_and_filter and the receive entry points.
//! `Message::deserialize` is replaced by its contract (C04 framing unit): it either fails or returns *some*
//! message -- here an arbitrary header and body (over-approximation of everything the parser can return;
//! the TLV suffix is empty in this unit, TLV handling is covered by the Verus tlv unit and the announce units).
#![allow(dead_code, unused_imports, missing_docs, static_mut_refs)]
use super::common::*;
use super::slave_h::{stub_as_core_duration, stub_div_by_two, stub_mul_f64};
use super::master_h::stub_wire_from_time;
use super::super::state::PortState;
use super::super::*;
use crate::bmc::foreign_master::verif_fm;
use crate::datastructures::common::{TlvSet, WireTimestamp};
use crate::datastructures::messages::{
    DelayReqMessage, DelayRespMessage, FollowUpMessage, Header, Message, MessageBody, PDelayReqMessage,
    PDelayRespFollowUpMessage, PDelayRespMessage, SyncMessage,
};
use crate::datastructures::WireFormatError;
use crate::verif_gen::*;

fn any_body(kind: u8, header: Header) -> MessageBody {
    match kind {
        0 => MessageBody::Sync(SyncMessage { origin_timestamp: any_wire_timestamp() }),
        1 => MessageBody::DelayReq(DelayReqMessage { origin_timestamp: any_wire_timestamp() }),
        2 => MessageBody::PDelayResp(PDelayRespMessage { request_receive_timestamp: any_wire_timestamp(), requesting_port_identity: any_port_identity() }),
        3 => MessageBody::FollowUp(FollowUpMessage { precise_origin_timestamp: any_wire_timestamp() }),
        4 => MessageBody::DelayResp(DelayRespMessage { receive_timestamp: any_wire_timestamp(), requesting_port_identity: any_port_identity() }),
        5 => MessageBody::PDelayRespFollowUp(PDelayRespFollowUpMessage { response_origin_timestamp: any_wire_timestamp(), requesting_port_identity: any_port_identity() }),
        _ => {
            let mut a = verif_fm::any_announce();
            a.header = header;
            MessageBody::Announce(a)
        }
    }
}

static mut STUB_KIND: u8 = 0;
/// 0: every decoded header is foreign (domain or sdoId differs from the instance's); 1: every decoded header matches
static mut STUB_MODE: u8 = 0;
static mut INST_DOMAIN: u8 = 0;
static mut INST_SDO: u16 = 0;

impl<'a> Message<'a> {
    fn verif_stub_deserialize(_buffer: &'a [u8]) -> Result<Self, WireFormatError> {
        if kani::any() {
            return Err(WireFormatError::Invalid);
        }
        let header = any_header();
        let matches = unsafe { u16::from(header.sdo_id) == INST_SDO && header.domain_number == INST_DOMAIN };
        kani::assume(matches == unsafe { STUB_MODE == 1 });
        let kind = unsafe { STUB_KIND };
        Ok(Message { header, body: any_body(kind, header), suffix: TlvSet::default() })
    }
}

/// frames with a PTP version other than 2, undecodable frames, frames of another domain or sdoId: no effect
/// whatsoever on either receive path, in every port state (C07); and no panic (C03).
#[kani::proof]
#[kani::unwind(34)]
#[kani::stub(PortActionIterator::from, PortActionIterator::verif_recording_from)]
#[kani::stub(Message::deserialize, Message::verif_stub_deserialize)]
#[kani::stub(Message::serialize, Message::verif_recording_serialize)]
#[kani::stub(<Duration as core::ops::Div<i32>>::div, stub_div_by_two)]
#[kani::stub(<Duration as core::ops::Div<f64>>::div, stub_div_by_two)]
#[kani::stub(<WireTimestamp as core::convert::From<Time>>::from, stub_wire_from_time)]
#[kani::stub(crate::time::Interval::as_core_duration, stub_as_core_duration)]
#[kani::stub(core::time::Duration::mul_f64, stub_mul_f64)]
#[kani::stub(<Duration as core::ops::Mul<u16>>::mul, verif_fm::stub_mul_window)]
fn c07_foreign_domain_version_or_malformed_is_frame() {
    let lock = ChkLock::new(any_instance_state(0));
    mk_port!(port, &lock, any_port_state(), Running);
    let kind: u8 = kani::any();
    kani::assume(kind < 7);
    unsafe {
        STUB_KIND = kind;
        STUB_MODE = 0;
        INST_DOMAIN = lock.peek().default_ds.domain_number;
        INST_SDO = u16::from(lock.peek().default_ds.sdo_id);
    }
    let data: [u8; 8] = kani::any();
    let n: usize = kani::any();
    kani::assume(n <= 8);
    let pre = port_view(&port);
    let inst = instance_view(lock.peek());
    let s = if kani::any() {
        run_actions!(port.handle_event_receive(&data[..n], any_time()))
    } else {
        run_actions!(port.handle_general_receive(&data[..n]))
    };
    assert!(s.n == 0);
    assert!(port_view(&port) == pre);
    assert!(instance_view(lock.peek()) == inst);
    kani::cover!(n >= 2 && (data[1] & 0xf) == 2);
    kani::cover!(n < 2);
}

/// event messages (Sync, Delay_Req, Pdelay_Resp) delivered on the general channel: no effect (C07)
#[kani::proof]
#[kani::unwind(34)]
#[kani::stub(PortActionIterator::from, PortActionIterator::verif_recording_from)]
#[kani::stub(Message::deserialize, Message::verif_stub_deserialize)]
#[kani::stub(Message::serialize, Message::verif_recording_serialize)]
#[kani::stub(<Duration as core::ops::Div<i32>>::div, stub_div_by_two)]
#[kani::stub(<Duration as core::ops::Div<f64>>::div, stub_div_by_two)]
#[kani::stub(<WireTimestamp as core::convert::From<Time>>::from, stub_wire_from_time)]
#[kani::stub(crate::time::Interval::as_core_duration, stub_as_core_duration)]
#[kani::stub(core::time::Duration::mul_f64, stub_mul_f64)]
#[kani::stub(<Duration as core::ops::Mul<u16>>::mul, verif_fm::stub_mul_window)]
fn c07_event_message_on_general_channel_is_frame() {
    let lock = ChkLock::new(any_instance_state(0));
    mk_port!(port, &lock, any_port_state(), Running);
    let kind: u8 = kani::any();
    kani::assume(kind < 3);
    unsafe {
        STUB_KIND = kind;
        STUB_MODE = 1;
        INST_DOMAIN = lock.peek().default_ds.domain_number;
        INST_SDO = u16::from(lock.peek().default_ds.sdo_id);
    }
    let data: [u8; 4] = [0, 2, 0, 44];
    let pre = port_view(&port);
    let inst = instance_view(lock.peek());
    let s = run_actions!(port.handle_general_receive(&data));
    assert!(s.n == 0);
    assert!(port_view(&port) == pre);
    assert!(instance_view(lock.peek()) == inst);
}
