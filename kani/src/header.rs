//! C04 unit "header": child module of datastructures::messages::header (sees private fields).
//! Oracle: an independent reader/writer of the common header written from IEEE 1588-2019
//! Clause 13.3 (Table 35: field offsets; Table 37: flagField bits; Table 42: controlField).
#![allow(dead_code, unused_imports, missing_docs)]
use super::*;
use crate::verif_gen::*;

/// Clause 13.3.1 Table 35, reading side. Returns None when messageType is not a defined value.
struct SpecHeader {
    major_sdo_id: u8,      // octet 0, bits 7..4
    message_type: u8,      // octet 0, bits 3..0
    minor_version: u8,     // octet 1, bits 7..4
    version: u8,           // octet 1, bits 3..0
    message_length: u16,   // octets 2..3, big endian
    domain_number: u8,     // octet 4
    minor_sdo_id: u8,      // octet 5
    flags0: u8,            // octet 6
    flags1: u8,            // octet 7
    correction: i64,       // octets 8..15, big endian two's complement, units of 2^-16 ns
    // octets 16..19 messageTypeSpecific
    clock_identity: [u8; 8], // octets 20..27
    port_number: u16,      // octets 28..29
    sequence_id: u16,      // octets 30..31
    control: u8,           // octet 32
    log_interval: i8,      // octet 33
}

fn spec_read(b: &[u8; 34]) -> SpecHeader {
    SpecHeader {
        major_sdo_id: b[0] >> 4,
        message_type: b[0] & 0x0f,
        minor_version: b[1] >> 4,
        version: b[1] & 0x0f,
        message_length: ((b[2] as u16) << 8) | b[3] as u16,
        domain_number: b[4],
        minor_sdo_id: b[5],
        flags0: b[6],
        flags1: b[7],
        correction: (((b[8] as u64) << 56)
            | ((b[9] as u64) << 48)
            | ((b[10] as u64) << 40)
            | ((b[11] as u64) << 32)
            | ((b[12] as u64) << 24)
            | ((b[13] as u64) << 16)
            | ((b[14] as u64) << 8)
            | (b[15] as u64)) as i64,
        clock_identity: [b[20], b[21], b[22], b[23], b[24], b[25], b[26], b[27]],
        port_number: ((b[28] as u16) << 8) | b[29] as u16,
        sequence_id: ((b[30] as u16) << 8) | b[31] as u16,
        control: b[32],
        log_interval: b[33] as i8,
    }
}

fn spec_message_type_defined(code: u8) -> bool {
    // Table 36
    matches!(code, 0x0 | 0x1 | 0x2 | 0x3 | 0x8 | 0x9 | 0xa | 0xb | 0xc | 0xd)
}

fn spec_control_field(message_type: u8) -> u8 {
    // Table 42
    match message_type {
        0x0 => 0x00,
        0x1 => 0x01,
        0x8 => 0x02,
        0x9 => 0x03,
        0xd => 0x04,
        _ => 0x05,
    }
}

fn bit(byte: u8, n: u8) -> bool {
    (byte >> n) & 1 == 1
}

fn header_matches_spec(h: &Header, s: &SpecHeader) -> bool {
    h.sdo_id.0 == ((s.major_sdo_id as u16) << 8 | s.minor_sdo_id as u16)
        && h.version.major == s.version
        && h.version.minor == s.minor_version
        && h.domain_number == s.domain_number
        // Table 37, octet 0
        && h.alternate_master_flag == bit(s.flags0, 0)
        && h.two_step_flag == bit(s.flags0, 1)
        && h.unicast_flag == bit(s.flags0, 2)
        && h.ptp_profile_specific_1 == bit(s.flags0, 5)
        && h.ptp_profile_specific_2 == bit(s.flags0, 6)
        // Table 37, octet 1
        && h.leap61 == bit(s.flags1, 0)
        && h.leap59 == bit(s.flags1, 1)
        && h.current_utc_offset_valid == bit(s.flags1, 2)
        && h.ptp_timescale == bit(s.flags1, 3)
        && h.time_tracable == bit(s.flags1, 4)
        && h.frequency_tracable == bit(s.flags1, 5)
        && h.synchronization_uncertain == bit(s.flags1, 6)
        && h.correction_field.0.to_bits() == s.correction
        && h.source_port_identity.clock_identity.0 == s.clock_identity
        && h.source_port_identity.port_number == s.port_number
        && h.sequence_id == s.sequence_id
        && h.log_message_interval == s.log_interval
}

/// deserialize_header is total on 34-byte inputs, fails exactly on undefined messageType codes and
/// otherwise yields the fields Clause 13.3 prescribes.
#[kani::proof]
fn c04_header_decode_matches_spec() {
    let b: [u8; 34] = kani::any();
    let s = spec_read(&b);
    match Header::deserialize_header(&b) {
        Ok(d) => {
            assert!(spec_message_type_defined(s.message_type));
            assert!(d.message_type as u8 == s.message_type);
            assert!(d.message_length == s.message_length);
            assert!(header_matches_spec(&d.header, &s));
        }
        Err(_) => assert!(!spec_message_type_defined(s.message_type)),
    }
    kani::cover!(Header::deserialize_header(&b).is_ok());
    kani::cover!(Header::deserialize_header(&b).is_err());
}

/// shorter than a header: always an error, never a panic (lengths 0..=33 by slicing)
#[kani::proof]
fn c04_header_decode_short_is_error() {
    let b: [u8; 34] = kani::any();
    let n: usize = kani::any();
    kani::assume(n < 34);
    assert!(Header::deserialize_header(&b[..n]).is_err());
}

/// serialize_header writes every Clause 13.3 field at its offset, zeroes the reserved octets and flag
/// bits, and decode(encode(h)) == h.
#[kani::proof]
fn c04_header_encode_matches_spec_and_round_trips() {
    let h = any_header();
    let t = any_message_type();
    let content_length: usize = kani::any();
    kani::assume(content_length <= 65535 - 34);
    let mut b: [u8; 34] = kani::any();
    h.serialize_header(t, content_length, &mut b).unwrap();
    let s = spec_read(&b);
    assert!(s.message_type == t as u8);
    assert!(s.message_length as usize == content_length + 34);
    assert!(s.control == spec_control_field(t as u8));
    assert!(header_matches_spec(&h, &s));
    // reserved: flagField bits 3,4,7 of octet 0 and bit 7 of octet 1; messageTypeSpecific = 0 for what statime sends
    assert!(s.flags0 & 0b1001_1000 == 0);
    assert!(s.flags1 & 0b1000_0000 == 0);
    assert!(b[16] == 0 && b[17] == 0 && b[18] == 0 && b[19] == 0);
    let d = Header::deserialize_header(&b).unwrap();
    assert!(d.header == h);
    assert!(d.message_type == t);
    assert!(d.message_length as usize == content_length + 34);
}

/// decode -> encode -> decode is the identity on the decoded value, and the re-encoded bytes agree
/// with the input on every defined field (all 2^272 inputs).
#[kani::proof]
fn c04_header_decode_encode_decode() {
    let b: [u8; 34] = kani::any();
    if let Ok(d) = Header::deserialize_header(&b) {
        kani::assume(d.message_length >= 34);
        let mut out: [u8; 34] = kani::any();
        d.header
            .serialize_header(d.message_type, d.message_length as usize - 34, &mut out)
            .unwrap();
        let d2 = Header::deserialize_header(&out).unwrap();
        assert!(d2 == d);
        // defined fields byte-identical (reserved bits and the deprecated controlField aside)
        assert!(out[0] == b[0] && out[1] == b[1] && out[2] == b[2] && out[3] == b[3]);
        assert!(out[4] == b[4] && out[5] == b[5]);
        assert!(out[6] == b[6] & 0b0110_0111);
        assert!(out[7] == b[7] & 0b0111_1111);
        let mut i = 8;
        while i < 16 {
            assert!(out[i] == b[i]);
            i += 1;
        }
        let mut i = 20;
        while i < 32 {
            assert!(out[i] == b[i]);
            i += 1;
        }
        assert!(out[33] == b[33]);
    }
}
