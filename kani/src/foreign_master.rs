//! C06 unit "foreign": child module of bmc::foreign_master (sees the private list representation).
//! Representation invariant `valid()` of ForeignMasterList and per-operation contracts.
#![allow(dead_code, unused_imports, missing_docs)]
use super::*;
use crate::datastructures::common::{ClockIdentity, PortIdentity, TimeInterval};
use crate::verif_gen::*;

pub(crate) fn dur_bits(d: Duration) -> i128 { crate::time::verif_time::dur_bits(d) }
pub(crate) fn dur_from_bits(b: i128) -> Duration { crate::time::verif_time::dur_from_bits(b) }

/// cut-off age of the foreign-master window: 4 announce intervals (9.3.2.4.5 FOREIGN_MASTER_TIME_WINDOW),
/// announce interval given in 2^-16 ns; Duration bits are 2^-32 ns
pub(crate) fn spec_cutoff_bits(interval: TimeInterval) -> i128 {
    ((interval.0.to_bits() as i128) << 16) * 4
}

/// Kani-side stand-in for `Duration * u16` (the only multiplication in this module is by
/// FOREIGN_MASTER_TIME_WINDOW, guarded textually by the driver). Verus unit "time" proves
/// bits' = floor(bits * (rhs * 2^32) / 2^32) = bits * rhs for integer rhs; CBMC cannot do the 128-bit
/// fixed-point multiplication.
pub(crate) fn stub_mul_window<TF: fixed::traits::ToFixed>(d: Duration, _rhs: TF) -> Duration {
    dur_from_bits(dur_bits(d) * (FOREIGN_MASTER_TIME_WINDOW as i128))
}

pub(crate) fn any_announce() -> AnnounceMessage {
    let header = any_header();
    AnnounceMessage {
        header,
        origin_timestamp: any_wire_timestamp(),
        current_utc_offset: kani::any(),
        grandmaster_priority_1: kani::any(),
        grandmaster_clock_quality: any_clock_quality(),
        grandmaster_priority_2: kani::any(),
        grandmaster_identity: any_clock_identity(),
        steps_removed: kani::any(),
        time_source: any_time_source(),
    }
}

/// 1 s announce interval (2^-16 ns units) for the fixed-age variants
pub(crate) const CONCRETE_INTERVAL_BITS: i64 = 1_000_000_000i64 << 16;

/// a stored record satisfying the per-message part of the invariant.
/// PAYLOAD ABSTRACTION of this unit: the list operations look only at the sender identity, the sequence id,
/// stepsRemoved and the age of a message; these are arbitrary here, every other field of the 250-byte record is a
/// fixed value (moving fully symbolic records through ArrayVec::retain/remove costs CBMC > 30 min and > 15 GB
/// per harness). Independence of the list logic from the payload is an assumption of this unit; that the payload
/// is carried along unchanged is checked where a message is handed out (c06_take_best..., c06_register...).
fn any_stored_message(sender: PortIdentity, cutoff: i128) -> ForeignAnnounceMessage {
    let mut m = fixed_announce();
    m.header.source_port_identity = sender;
    m.header.sequence_id = kani::any();
    m.steps_removed = kani::any();
    kani::assume(m.steps_removed < 255);
    let age: i128 = kani::any();
    kani::assume(age >= 0 && age < cutoff);
    ForeignAnnounceMessage { header: m.header, message: m, age: dur_from_bits(age) }
}
/// an Announce with a fixed payload (see PAYLOAD ABSTRACTION)
pub(crate) fn fixed_announce() -> AnnounceMessage {
    AnnounceMessage {
        header: Header::new(1),
        origin_timestamp: Default::default(),
        current_utc_offset: 37,
        grandmaster_priority_1: 128,
        grandmaster_clock_quality: Default::default(),
        grandmaster_priority_2: 128,
        grandmaster_identity: ClockIdentity([0xaa; 8]),
        steps_removed: 1,
        time_source: Default::default(),
    }
}
/// new arrival: arbitrary sender, sequence id, stepsRemoved; fixed payload
pub(crate) fn any_arrival() -> AnnounceMessage {
    let mut a = fixed_announce();
    a.header.source_port_identity = any_port_identity();
    a.header.sequence_id = kani::any();
    a.steps_removed = kani::any();
    a
}

/// arbitrary valid list of a CONCRETE SHAPE: shape[i] = number of stored messages of record i (0 = no such
/// record). Sender identities, sequence ids, stepsRemoved and ages are arbitrary; lengths are concrete, which is
/// what keeps CBMC's cost down (symbolic lengths make every ArrayVec index symbolic over 250-byte elements).
/// Every list harness is instantiated for the shapes [], [1], [2], [2,1], [2,2] (BOUND: <= 2 records x <= 2 messages).
pub(crate) fn list_of_shape(own: PortIdentity, interval: TimeInterval, shape: [usize; 2]) -> ForeignMasterList {
    list_of_shape_ages(own, interval, shape, false)
}
/// `fixed_ages`: stored ages are the concrete values 1000, 2000, 3000, 4000 (2^-32 ns units) instead of arbitrary
/// ones -- used where the operation's outcome does not depend on the stored ages except that nothing is purged
/// (register, take_best): with symbolic ages CBMC must explore ArrayVec::retain / remove on symbolic lengths,
/// which exhausts memory. The interval must then be concrete too (CONCRETE_INTERVAL).
pub(crate) fn list_of_shape_ages(own: PortIdentity, interval: TimeInterval, shape: [usize; 2], fixed_ages: bool) -> ForeignMasterList {
    let cutoff = spec_cutoff_bits(interval);
    kani::assume(interval.0.to_bits() > 0 && interval.0.to_bits() < (1i64 << 58));
    let mut list = ForeignMasterList::new(interval, own);
    let mut i = 0;
    while i < 2 {
        if shape[i] > 0 {
            let sender = any_port_identity();
            kani::assume(sender.clock_identity != own.clock_identity);
            if i == 1 {
                kani::assume(list.foreign_masters[0].foreign_master_port_identity != sender);
            }
            let mut fm = ForeignMaster { foreign_master_port_identity: sender, announce_messages: ArrayVec::new() };
            let mut m = 0;
            while m < 2 {
                if m < shape[i] {
                    let mut sm = any_stored_message(sender, cutoff);
                    if fixed_ages { sm.age = dur_from_bits(1000 * (1 + 2 * i as i128 + m as i128)); }
                    fm.announce_messages.push(sm);
                }
                m += 1;
            }
            list.foreign_masters.push(fm);
        }
        i += 1;
    }
    list
}
pub(crate) fn any_valid_list(own: PortIdentity, interval: TimeInterval, masters: usize, msgs: usize) -> ForeignMasterList {
    // kept for callers that want the largest shape of the bound
    list_of_shape(own, interval, [msgs.min(2), if masters >= 2 { msgs.min(2) } else { 0 }])
}

/// representation invariant (checked structurally up to the given bounds)
pub(crate) fn valid(list: &ForeignMasterList, masters: usize, msgs: usize) -> bool {
    let cutoff = spec_cutoff_bits(list.own_port_announce_interval);
    if list.foreign_masters.len() > MAX_FOREIGN_MASTERS { return false; }
    let mut ok = true;
    let mut i = 0;
    while i < masters {
        if i < list.foreign_masters.len() {
            let fm = &list.foreign_masters[i];
            ok &= !fm.announce_messages.is_empty();
            ok &= fm.foreign_master_port_identity.clock_identity != list.own_port_identity.clock_identity;
            let mut j = 0;
            while j < i {
                ok &= list.foreign_masters[j].foreign_master_port_identity != fm.foreign_master_port_identity;
                j += 1;
            }
            let mut m = 0;
            while m < msgs {
                if m < fm.announce_messages.len() {
                    let a = &fm.announce_messages[m];
                    ok &= dur_bits(a.age) >= 0 && dur_bits(a.age) < cutoff;
                    ok &= a.message.steps_removed < 255;
                    ok &= a.message.header.source_port_identity == fm.foreign_master_port_identity;
                }
                m += 1;
            }
        }
        i += 1;
    }
    ok
}

pub(crate) fn n_masters(list: &ForeignMasterList) -> usize { list.foreign_masters.len() }
pub(crate) fn n_messages_of(list: &ForeignMasterList, i: usize) -> usize { list.foreign_masters[i].announce_messages.len() }
pub(crate) fn sender_of(list: &ForeignMasterList, i: usize) -> PortIdentity { list.foreign_masters[i].foreign_master_port_identity }
pub(crate) fn index_of(list: &ForeignMasterList, sender: PortIdentity, bound: usize) -> Option<usize> {
    let mut i = 0;
    let mut r = None;
    while i < bound {
        if i < list.foreign_masters.len() && r.is_none() && list.foreign_masters[i].foreign_master_port_identity == sender {
            r = Some(i);
        }
        i += 1;
    }
    r
}
pub(crate) fn newest_of(list: &ForeignMasterList, i: usize) -> (u16, i128) {
    let m = list.foreign_masters[i].announce_messages.last().unwrap();
    (m.header.sequence_id, dur_bits(m.age))
}
pub(crate) fn total_messages(list: &ForeignMasterList, bound: usize) -> usize {
    let mut i = 0;
    let mut n = 0;
    while i < bound {
        if i < list.foreign_masters.len() { n += list.foreign_masters[i].announce_messages.len(); }
        i += 1;
    }
    n
}

// ------------------------------------------------------------------------------------------------
// qualification rule, complete over all u16 sequence-id pairs (the wrap-around clause of C06)
// ------------------------------------------------------------------------------------------------
/// spec (9.3.2.5 + statime's documented rules): not qualified if it carries the instance's own clock
/// identity, if stepsRemoved >= 255, or if it is not newer (modulo 2^16, half-range) than the newest
/// stored message of the same sender.
fn spec_qualified(own: PortIdentity, a: &AnnounceMessage, last_seq_of_sender: Option<u16>) -> bool {
    if a.header.source_port_identity.clock_identity == own.clock_identity { return false; }
    if a.steps_removed >= 255 { return false; }
    match last_seq_of_sender {
        None => true,
        Some(last) => {
            let diff = a.header.sequence_id.wrapping_sub(last);
            // newer by 1 ..= 32766 steps modulo 2^16
            diff >= 1 && diff < 32767
        }
    }
}

const KM: usize = 2; // masters in the bounded generator
const KN: usize = 2; // messages per master in the bounded generator

#[kani::proof]
#[kani::unwind(9)]
fn c06_new_list_is_valid_and_empty() {
    let own = any_port_identity();
    let interval = any_time_interval();
    let list = ForeignMasterList::new(interval, own);
    assert!(list.foreign_masters.is_empty());
    assert!(valid(&list, KM, KN));
}

/// `is_announce_message_qualified` against the spec, on lists of <= KM masters x <= KN messages,
/// all identities, all 2^32 (stored, new) sequence-id pairs.
fn c06_qualification_rule_on(shape: [usize; 2]) {
    let own = any_port_identity();
    let interval = any_time_interval();
    let list = list_of_shape(own, interval, shape);
    let a = any_arrival();
    let idx = index_of(&list, a.header.source_port_identity, KM);
    let last = idx.map(|i| list.foreign_masters[i].announce_messages.last().unwrap().header.sequence_id);
    let got = list.is_announce_message_qualified(&a);
    let want = spec_qualified(own, &a, last);
    // necessary-condition half of C06 (never own identity, never stepsRemoved >= 255, never a stale id)
    if got {
        assert!(a.header.source_port_identity.clock_identity != own.clock_identity);
        assert!(a.steps_removed < 255);
        if let Some(l) = last { assert!(a.header.sequence_id.wrapping_sub(l) < 32767); }
    }
    // a steadily announcing master is accepted, also across 65535 -> 0
    if let Some(l) = last {
        if a.header.sequence_id == l.wrapping_add(1) && a.steps_removed < 255
            && a.header.source_port_identity.clock_identity != own.clock_identity {
            assert!(got);
        }
    }
    // open finding (C06): a repeated sequence id is accepted as newer; isolated in
    // c06_finding_duplicate_sequence_id_counts, excluded here so that any other deviation is still reported
    if last != Some(a.header.sequence_id) { assert!(got == want); }
    // reachability of the end of the harness (vacuity guard)
    kani::cover!();
}
#[kani::proof]
#[kani::unwind(9)]
fn c06_qualification_rule__empty() { c06_qualification_rule_on([0, 0]) }
#[kani::proof]
#[kani::unwind(9)]
fn c06_qualification_rule__one_single() { c06_qualification_rule_on([1, 0]) }
#[kani::proof]
#[kani::unwind(9)]
fn c06_qualification_rule__one_pair() { c06_qualification_rule_on([2, 0]) }
#[kani::proof]
#[kani::unwind(9)]
fn c06_qualification_rule__pair_and_single() { c06_qualification_rule_on([2, 1]) }
#[kani::proof]
#[kani::unwind(9)]
fn c06_qualification_rule__two_pairs() { c06_qualification_rule_on([2, 2]) }


/// register_announce_message: frame when not qualified; otherwise the message is stored as the newest
/// of its sender's record (oldest dropped at capacity), other records untouched; validity preserved.
fn c06_register_preserves_valid_on(shape: [usize; 2]) {
    let own = any_port_identity();
    let interval = TimeInterval(fixed::types::I48F16::from_bits(CONCRETE_INTERVAL_BITS));
    let mut list = list_of_shape_ages(own, interval, shape, true);
    let a = any_arrival();
    let h = a.header;
    // age of the (re-)registered message: arbitrary within the window
    let age: i128 = kani::any();
    kani::assume(age >= 0 && age < spec_cutoff_bits(interval));
    let qualified = list.is_announce_message_qualified(&a);
    let n0 = n_masters(&list);
    let idx = index_of(&list, a.header.source_port_identity, KM);
    let total0 = total_messages(&list, KM);
    let other = if idx == Some(0) { 1 } else { 0 };
    let other_len0 = if other < n0 { Some(n_messages_of(&list, other)) } else { None };

    list.register_announce_message(&h, &a, dur_from_bits(age));

    assert!(valid(&list, KM + 1, KN + 1));
    if !qualified {
        assert!(n_masters(&list) == n0 && total_messages(&list, KM) == total0);
    } else {
        match idx {
            Some(i) => {
                assert!(n_masters(&list) == n0);
                let rec = &list.foreign_masters[i];
                let newest = rec.announce_messages.last().unwrap();
                assert!(newest.header.sequence_id == a.header.sequence_id && dur_bits(newest.age) == age);
                assert!(newest.message == a);
            }
            None => {
                assert!(n_masters(&list) == n0 + 1);
                let rec = &list.foreign_masters[n0];
                assert!(rec.foreign_master_port_identity == a.header.source_port_identity);
                assert!(rec.announce_messages.len() == 1);
                // a new record starts with age zero
                assert!(dur_bits(rec.announce_messages[0].age) == 0 && rec.announce_messages[0].message == a);
            }
        }
        if let Some(l) = other_len0 { assert!(n_messages_of(&list, other) == l); }
    }
    // reachability of the end of the harness (vacuity guard)
    kani::cover!();
}
#[kani::proof]
#[kani::unwind(9)]
#[kani::stub(<Duration as core::ops::Mul<u16>>::mul, stub_mul_window)]
fn c06_register_preserves_valid__empty() { c06_register_preserves_valid_on([0, 0]) }
#[kani::proof]
#[kani::unwind(9)]
#[kani::stub(<Duration as core::ops::Mul<u16>>::mul, stub_mul_window)]
fn c06_register_preserves_valid__one_single() { c06_register_preserves_valid_on([1, 0]) }
#[kani::proof]
#[kani::unwind(9)]
#[kani::stub(<Duration as core::ops::Mul<u16>>::mul, stub_mul_window)]
fn c06_register_preserves_valid__one_pair() { c06_register_preserves_valid_on([2, 0]) }
#[kani::proof]
#[kani::unwind(9)]
#[kani::stub(<Duration as core::ops::Mul<u16>>::mul, stub_mul_window)]
fn c06_register_preserves_valid__pair_and_single() { c06_register_preserves_valid_on([2, 1]) }
#[kani::proof]
#[kani::unwind(9)]
#[kani::stub(<Duration as core::ops::Mul<u16>>::mul, stub_mul_window)]
fn c06_register_preserves_valid__two_pairs() { c06_register_preserves_valid_on([2, 2]) }


/// step_age(step >= 0): every surviving message aged by exactly `step`; exactly those reaching the cut-off
/// are removed; empty records disappear; validity preserved. Expiry follows: without new registrations
/// every age grows by step > 0 per BMCA run, so a silent master is gone after ceil(4*interval/step) runs.
fn c06_step_age_ages_and_expires_on(shape: [usize; 2]) {
    let own = any_port_identity();
    let interval = any_time_interval();
    let mut list = list_of_shape(own, interval, shape);
    let cutoff = spec_cutoff_bits(interval);
    let step: i128 = kani::any();
    kani::assume(step >= 0 && step < (1i128 << 100));
    // snapshot of record 0
    let n0 = n_masters(&list);
    let (s0, len0, a0, a1) = if n0 > 0 {
        let fm = &list.foreign_masters[0];
        (Some(fm.foreign_master_port_identity), fm.announce_messages.len(),
         dur_bits(fm.announce_messages[0].age), if fm.announce_messages.len() > 1 { dur_bits(fm.announce_messages[1].age) } else { cutoff })
    } else { (None, 0, 0, 0) };

    list.step_age(dur_from_bits(step));

    assert!(valid(&list, KM, KN));
    assert!(n_masters(&list) <= n0);
    if let Some(s) = s0 {
        let survivors = (a0 + step < cutoff) as usize + (len0 > 1 && a1 + step < cutoff) as usize;
        match index_of(&list, s, KM) {
            None => assert!(survivors == 0),
            Some(i) => {
                assert!(survivors > 0 && n_messages_of(&list, i) == survivors);
                let first = dur_bits(list.foreign_masters[i].announce_messages[0].age);
                assert!(first == if a0 + step < cutoff { a0 + step } else { a1 + step });
            }
        }
    }
    // a step of a whole window empties the list
    if step >= cutoff { assert!(n_masters(&list) == 0); }
    // reachability of the end of the harness (vacuity guard)
    kani::cover!();
}
#[kani::proof]
#[kani::unwind(9)]
#[kani::stub(<Duration as core::ops::Mul<u16>>::mul, stub_mul_window)]
fn c06_step_age_ages_and_expires__empty() { c06_step_age_ages_and_expires_on([0, 0]) }
#[kani::proof]
#[kani::unwind(9)]
#[kani::stub(<Duration as core::ops::Mul<u16>>::mul, stub_mul_window)]
fn c06_step_age_ages_and_expires__one_single() { c06_step_age_ages_and_expires_on([1, 0]) }
#[kani::proof]
#[kani::unwind(9)]
#[kani::stub(<Duration as core::ops::Mul<u16>>::mul, stub_mul_window)]
fn c06_step_age_ages_and_expires__one_pair() { c06_step_age_ages_and_expires_on([2, 0]) }
#[kani::proof]
#[kani::unwind(9)]
#[kani::stub(<Duration as core::ops::Mul<u16>>::mul, stub_mul_window)]
fn c06_step_age_ages_and_expires__pair_and_single() { c06_step_age_ages_and_expires_on([2, 1]) }
#[kani::proof]
#[kani::unwind(9)]
#[kani::stub(<Duration as core::ops::Mul<u16>>::mul, stub_mul_window)]
fn c06_step_age_ages_and_expires__two_pairs() { c06_step_age_ages_and_expires_on([2, 2]) }


/// take_qualified_announce_messages: yields a message of a sender only if that sender had >= 2 stored
/// messages (all, by `valid`, younger than the window), namely its newest, and removes exactly that one.
fn c06_take_qualified_needs_two_messages_on(shape: [usize; 2]) {
    let own = any_port_identity();
    let interval = any_time_interval();
    let mut list = list_of_shape(own, interval, shape);
    let n0 = n_masters(&list);
    let len_a = if n0 > 0 { n_messages_of(&list, 0) } else { 0 };
    let len_b = if n0 > 1 { n_messages_of(&list, 1) } else { 0 };
    let newest_a = if len_a > 0 { Some(list.foreign_masters[0].announce_messages[len_a - 1].header.sequence_id) } else { None };
    let sender_a = if n0 > 0 { Some(sender_of(&list, 0)) } else { None };

    let mut it = list.take_qualified_announce_messages();
    let mut count = 0;
    let mut saw_a = false;
    let mut k = 0;
    while k < KM + 1 {
        if let Some(m) = it.next() {
            count += 1;
            assert!(m.message.steps_removed < 255);
            assert!(m.message.header.source_port_identity.clock_identity != own.clock_identity);
            assert!(dur_bits(m.age) >= 0 && dur_bits(m.age) < spec_cutoff_bits(interval));
            if Some(m.message.header.source_port_identity) == sender_a {
                saw_a = true;
                assert!(len_a >= 2 && Some(m.header.sequence_id) == newest_a);
            }
        }
        k += 1;
    }
    core::mem::forget(it);
    assert!(count == (len_a >= 2) as usize + (len_b >= 2) as usize);
    assert!(saw_a == (len_a >= 2));
    // exactly the newest of each qualified record was removed; single-message records are untouched
    assert!(n_masters(&list) == n0);
    if n0 > 0 { assert!(n_messages_of(&list, 0) == if len_a >= 2 { len_a - 1 } else { len_a }); }
    if n0 > 1 { assert!(n_messages_of(&list, 1) == if len_b >= 2 { len_b - 1 } else { len_b }); }
    // reachability of the end of the harness (vacuity guard)
    kani::cover!();
}
#[kani::proof]
#[kani::unwind(9)]
fn c06_take_qualified_needs_two_messages__empty() { c06_take_qualified_needs_two_messages_on([0, 0]) }
#[kani::proof]
#[kani::unwind(9)]
fn c06_take_qualified_needs_two_messages__one_single() { c06_take_qualified_needs_two_messages_on([1, 0]) }
#[kani::proof]
#[kani::unwind(9)]
fn c06_take_qualified_needs_two_messages__one_pair() { c06_take_qualified_needs_two_messages_on([2, 0]) }
#[kani::proof]
#[kani::unwind(9)]
fn c06_take_qualified_needs_two_messages__pair_and_single() { c06_take_qualified_needs_two_messages_on([2, 1]) }
#[kani::proof]
#[kani::unwind(9)]
fn c06_take_qualified_needs_two_messages__two_pairs() { c06_take_qualified_needs_two_messages_on([2, 2]) }



/// capacity: with all MAX_FOREIGN_MASTERS records in use a further master is not recorded -- and nothing panics.
/// (The 8 records are built directly, with concrete distinct senders and one fixed message each.)
#[kani::proof]
#[kani::unwind(10)]
#[kani::stub(<Duration as core::ops::Mul<u16>>::mul, stub_mul_window)]
fn c06_register_at_capacity() {
    let own = PortIdentity { clock_identity: ClockIdentity([0xee; 8]), port_number: 1 };
    let interval = TimeInterval(fixed::types::I48F16::from_bits(1 << 40));
    let mut list = ForeignMasterList::new(interval, own);
    let mut i: u8 = 0;
    while i < MAX_FOREIGN_MASTERS as u8 {
        let sender = PortIdentity { clock_identity: ClockIdentity([i; 8]), port_number: 1 };
        list.foreign_masters.push(ForeignMaster { foreign_master_port_identity: sender, announce_messages: ArrayVec::new() });
        i += 1;
    }
    assert!(n_masters(&list) == MAX_FOREIGN_MASTERS);
    // CONCRETE INSTANCE: the newcomer's identity is fixed (a symbolic identity makes CBMC explore the
    // "found among the 8 records" path through ArrayVec::retain on a symbolic record: out of memory);
    // its sequence id and stepsRemoved are arbitrary
    let mut newcomer = any_arrival();
    kani::assume(newcomer.steps_removed < 255);
    let s = PortIdentity { clock_identity: ClockIdentity([0xcc; 8]), port_number: 7 };
    newcomer.header.source_port_identity = s;
    list.register_announce_message(&newcomer.header, &newcomer, dur_from_bits(0));
    assert!(n_masters(&list) == MAX_FOREIGN_MASTERS);
    core::mem::forget(list);
}

/// FINDING harness (expected to fail while the finding is open): an Announce repeating the sequence id of the
/// newest stored message of its sender is not a new message and must not be qualified.
#[kani::proof]
#[kani::unwind(9)]
fn c06_finding_duplicate_sequence_id_counts() {
    let own = any_port_identity();
    let interval = any_time_interval();
    let list = list_of_shape(own, interval, [1, 0]);
    let stored = &list.foreign_masters[0].announce_messages[0];
    let mut a = any_arrival();
    a.header.source_port_identity = stored.message.header.source_port_identity;
    a.header.sequence_id = stored.header.sequence_id;
    assert!(!list.is_announce_message_qualified(&a));
}


// ---------------------------------------------------------------------------------------------------------
// MODULAR CALL CHAIN for "a re-registered message is stored with the age it is handed in with" (C06: the
// Erbest put back after a BMCA run keeps ageing and expires with the window). Each function is checked against
// the *contract* of its callee (a recording stub), so no harness moves 250-byte records through
// ArrayVec::retain / remove:
//   Bmca::take_best_port_announce_message  --calls-->  Bmca::reregister_announce_message(h, m, best.age)
//   Bmca::reregister_announce_message      --calls-->  ForeignMasterList::register_announce_message(h, m, age)
//   ForeignMasterList::register_...        --calls-->  ForeignMaster::register_announce_message(*h, *m, interval, age)
//   ForeignMaster::register_...            ==  purge_old_messages; push (h, m, age) as the newest message
// ---------------------------------------------------------------------------------------------------------
pub(crate) static mut REC_CALLS: u32 = 0;
pub(crate) static mut REC_ARGS: Option<(Header, AnnounceMessage, i128)> = None;
pub(crate) static mut REC_INTERVAL: Option<TimeInterval> = None;
pub(crate) static mut REC_STEP: Option<i128> = None;
pub(crate) fn rec_reset() { unsafe { REC_CALLS = 0; REC_ARGS = None; REC_INTERVAL = None; REC_STEP = None; } }
pub(crate) fn rec_note_step(step: Duration) { unsafe { REC_CALLS += 1; REC_STEP = Some(dur_bits(step)); } }
pub(crate) fn rec_step() -> Option<i128> { unsafe { REC_STEP } }
pub(crate) fn rec_calls() -> u32 { unsafe { REC_CALLS } }
pub(crate) fn rec_args() -> Option<(Header, AnnounceMessage, i128)> { unsafe { REC_ARGS } }
pub(crate) fn rec_note(h: Header, m: AnnounceMessage, age: Duration) { unsafe { REC_CALLS += 1; REC_ARGS = Some((h, m, dur_bits(age))); } }

/// number of messages the purge stub removes (from the old end) -- chosen by the harness
pub(crate) static mut PURGE_DROPS: usize = 0;

impl ForeignMaster {
    /// recording stand-in for ForeignMaster::register_announce_message
    pub(crate) fn verif_rec_register(&mut self, header: Header, announce_message: AnnounceMessage, announce_interval: TimeInterval, age: Duration) {
        rec_note(header, announce_message, age);
        unsafe { REC_INTERVAL = Some(announce_interval); }
    }
    /// stand-in for purge_old_messages in the record-level harness: removes nothing or everything, as the
    /// harness chose (its real contract -- exactly the messages of age >= 4 intervals go -- is
    /// c06_step_age_ages_and_expires); the record-level harness needs only "some stored messages may go"
    pub(crate) fn verif_stub_purge(&mut self, _announce_interval: TimeInterval) -> bool {
        if unsafe { PURGE_DROPS } > 0 { self.announce_messages.clear(); }
        self.announce_messages.is_empty()
    }
}
impl ForeignMasterList {
    /// recording stand-in for ForeignMasterList::register_announce_message
    pub(crate) fn verif_rec_register(&mut self, header: &Header, announce_message: &AnnounceMessage, age: Duration) {
        rec_note(*header, *announce_message, age);
    }
    /// stand-in for take_qualified_announce_messages with its contract's shape: hands out at most two stored
    /// messages of foreign senders (its real contract is c06_take_qualified_needs_two_messages__*)
    pub(crate) fn verif_stub_take_qualified(&mut self) -> impl Iterator<Item = ForeignAnnounceMessage> {
        let mut out = ArrayVec::<_, MAX_FOREIGN_MASTERS>::new();
        let n: u8 = kani::any();
        kani::assume(n <= 2);
        let mut k = 0;
        while k < 2 {
            if k < n {
                let m = any_announce();
                let age: i128 = kani::any();
                kani::assume(age >= 0 && age < (1i128 << 100));
                out.push(ForeignAnnounceMessage { header: m.header, message: m, age: dur_from_bits(age) });
            }
            k += 1;
        }
        unsafe { OFFERED = n; }
        out.into_iter()
    }
}
pub(crate) static mut OFFERED: u8 = 0;
pub(crate) fn offered() -> u8 { unsafe { OFFERED } }

/// ForeignMasterList::register_announce_message: a qualified message of a known sender is handed to that
/// sender's record *with the age and interval given* (one call); an unknown sender gets a new record; an
/// unqualified message changes nothing and reaches no record.
fn c06_list_register_hands_age_to_record_on(shape: [usize; 2]) {
    let own = any_port_identity();
    let interval = any_time_interval();
    let mut list = list_of_shape(own, interval, shape);
    let a = any_arrival();
    let h = any_header();
    let age: i128 = kani::any();
    kani::assume(age >= 0 && age < (1i128 << 100));
    let qualified = list.is_announce_message_qualified(&a);
    let n0 = n_masters(&list);
    let idx = index_of(&list, a.header.source_port_identity, KM);
    let total0 = total_messages(&list, KM);
    rec_reset();

    list.register_announce_message(&h, &a, dur_from_bits(age));

    if qualified && idx.is_some() {
        assert!(rec_calls() == 1);
        let (rh, rm, rage) = rec_args().unwrap();
        assert!(rh == h && rm == a && rage == age);
        assert!(unsafe { REC_INTERVAL } == Some(interval));
        assert!(n_masters(&list) == n0 && total_messages(&list, KM) == total0);
    } else {
        assert!(rec_calls() == 0);
        if qualified {
            assert!(n_masters(&list) == n0 + 1);
            assert!(list.foreign_masters[n0].foreign_master_port_identity == a.header.source_port_identity);
        } else {
            assert!(n_masters(&list) == n0 && total_messages(&list, KM) == total0);
        }
    }
    kani::cover!(qualified && idx.is_some());
    kani::cover!(qualified && idx.is_none());
    core::mem::forget(list);
}
#[kani::proof]
#[kani::unwind(9)]
#[kani::stub(ForeignMaster::register_announce_message, ForeignMaster::verif_rec_register)]
fn c06_list_register_hands_age_to_record__one_single() { c06_list_register_hands_age_to_record_on([1, 0]) }
#[kani::proof]
#[kani::unwind(9)]
#[kani::stub(ForeignMaster::register_announce_message, ForeignMaster::verif_rec_register)]
fn c06_list_register_hands_age_to_record__pair_and_single() { c06_list_register_hands_age_to_record_on([2, 1]) }

/// ForeignMaster::register_announce_message == purge; then the new (header, message, age) is the newest stored
/// message and the surviving older ones keep their order. Instances: record with n = 0 or 2 messages before the
/// call, purge removing nothing or everything.
fn c06_record_register_appends_on(n: usize, purge_all: bool) {
    let sender = any_port_identity();
    let mut fm = ForeignMaster { foreign_master_port_identity: sender, announce_messages: ArrayVec::new() };
    let mut k = 0;
    while k < 2 {
        if k < n { fm.announce_messages.push(any_stored_message(sender, 1i128 << 100)); }
        k += 1;
    }
    unsafe { PURGE_DROPS = purge_all as usize; }
    let left = if purge_all { 0 } else { n };
    let newest_before = if n > 0 { Some(fm.announce_messages[n - 1].header.sequence_id) } else { None };
    let a = any_arrival();
    let h = any_header();
    let age: i128 = kani::any();
    kani::assume(age >= 0 && age < (1i128 << 100));

    fm.register_announce_message(h, a, any_time_interval(), dur_from_bits(age));

    assert!(fm.announce_messages.len() == left + 1);
    let newest = &fm.announce_messages[left];
    assert!(newest.header == h && newest.message == a && dur_bits(newest.age) == age);
    if left > 0 { assert!(Some(fm.announce_messages[left - 1].header.sequence_id) == newest_before); }
    assert!(fm.foreign_master_port_identity == sender);
    kani::cover!();
    core::mem::forget(fm);
}
#[kani::proof]
#[kani::unwind(9)]
#[kani::stub(ForeignMaster::purge_old_messages, ForeignMaster::verif_stub_purge)]
fn c06_record_register_appends_with_given_age__empty() { c06_record_register_appends_on(0, false) }
#[kani::proof]
#[kani::unwind(9)]
#[kani::stub(ForeignMaster::purge_old_messages, ForeignMaster::verif_stub_purge)]
fn c06_record_register_appends_with_given_age__pair_kept() { c06_record_register_appends_on(2, false) }
#[kani::proof]
#[kani::unwind(9)]
#[kani::stub(ForeignMaster::purge_old_messages, ForeignMaster::verif_stub_purge)]
fn c06_record_register_appends_with_given_age__pair_purged() { c06_record_register_appends_on(2, true) }

/// CONCRETE-PAYLOAD INSTANCE at capacity: a record holding MAX_ANNOUNCE_MESSAGES messages drops its oldest and
/// stores the new one, with its age, as the newest.
#[kani::proof]
#[kani::unwind(10)]
#[kani::stub(ForeignMaster::purge_old_messages, ForeignMaster::verif_stub_purge)]
fn c06_record_register_at_capacity_drops_oldest() {
    let sender = PortIdentity { clock_identity: ClockIdentity([2; 8]), port_number: 1 };
    let mut fm = ForeignMaster { foreign_master_port_identity: sender, announce_messages: ArrayVec::new() };
    let mut k: u16 = 0;
    while k < MAX_ANNOUNCE_MESSAGES as u16 {
        let mut m = fixed_announce();
        m.header.source_port_identity = sender;
        m.header.sequence_id = 100 + k;
        fm.announce_messages.push(ForeignAnnounceMessage { header: m.header, message: m, age: dur_from_bits(1000 * k as i128) });
        k += 1;
    }
    unsafe { PURGE_DROPS = 0; }
    let mut a = fixed_announce();
    a.header.source_port_identity = sender;
    a.header.sequence_id = kani::any();
    let age: i128 = kani::any();
    kani::assume(age >= 0 && age < (1i128 << 100));
    fm.register_announce_message(a.header, a, any_time_interval(), dur_from_bits(age));
    assert!(fm.announce_messages.len() == MAX_ANNOUNCE_MESSAGES);
    let newest = &fm.announce_messages[MAX_ANNOUNCE_MESSAGES - 1];
    assert!(newest.header.sequence_id == a.header.sequence_id && dur_bits(newest.age) == age);
    assert!(fm.announce_messages[0].header.sequence_id == 101);
    assert!(fm.announce_messages[MAX_ANNOUNCE_MESSAGES - 2].header.sequence_id == 100 + MAX_ANNOUNCE_MESSAGES as u16 - 1);
    core::mem::forget(fm);
}


// ---- modular contracts for ageing / expiry ----
pub(crate) static mut STEP_CALLS: usize = 0;
pub(crate) static mut STEP_EMPTIED: [bool; 4] = [false; 4];
pub(crate) static mut STEP_ARGS_OK: bool = true;
pub(crate) static mut STEP_EXPECT: Option<(i128, TimeInterval)> = None;
impl ForeignMaster {
    /// stand-in for ForeignMaster::step_age in the list-level harness: checks that the list passes its own step
    /// and announce interval, and answers "this record is now empty" arbitrarily (remembering the answer).
    /// Contract it stands for: c06_record_step_age_* below.
    pub(crate) fn verif_stub_step_age(&mut self, step: Duration, announce_interval: TimeInterval) -> bool {
        let emptied: bool = kani::any();
        unsafe {
            if let Some((s, i)) = STEP_EXPECT { if dur_bits(step) != s || announce_interval != i { STEP_ARGS_OK = false; } }
            if STEP_CALLS < 4 { STEP_EMPTIED[STEP_CALLS] = emptied; }
            STEP_CALLS += 1;
        }
        emptied
    }
    /// recording stand-in for purge_old_messages in the record-level step_age harness
    pub(crate) fn verif_rec_purge(&mut self, announce_interval: TimeInterval) -> bool {
        unsafe { REC_CALLS += 1; REC_INTERVAL = Some(announce_interval); }
        self.announce_messages.is_empty()
    }
}

/// ForeignMaster::purge_old_messages: exactly the messages younger than 4 announce intervals survive, in order;
/// the result says whether the record is empty. Instances: n = 1, 2 stored messages, arbitrary ages / interval.
fn c06_record_purge_on(n: usize) -> (bool, bool) {
    let sender = any_port_identity();
    let interval = any_time_interval();
    kani::assume(interval.0.to_bits() > 0 && interval.0.to_bits() < (1i64 << 58));
    let cutoff = spec_cutoff_bits(interval);
    let mut fm = ForeignMaster { foreign_master_port_identity: sender, announce_messages: ArrayVec::new() };
    let mut k = 0;
    while k < 2 {
        if k < n { fm.announce_messages.push(any_stored_message(sender, 1i128 << 100)); }
        k += 1;
    }
    let a0 = dur_bits(fm.announce_messages[0].age);
    let s0 = fm.announce_messages[0].header.sequence_id;
    let (a1, s1) = if n > 1 { (dur_bits(fm.announce_messages[1].age), fm.announce_messages[1].header.sequence_id) } else { (cutoff, 0) };

    let empty = fm.purge_old_messages(interval);

    let keep0 = a0 < cutoff;
    let keep1 = n > 1 && a1 < cutoff;
    assert!(fm.announce_messages.len() == keep0 as usize + keep1 as usize);
    assert!(empty == (!keep0 && !keep1));
    if keep0 {
        assert!(fm.announce_messages[0].header.sequence_id == s0 && dur_bits(fm.announce_messages[0].age) == a0);
        if keep1 { assert!(fm.announce_messages[1].header.sequence_id == s1 && dur_bits(fm.announce_messages[1].age) == a1); }
    } else if keep1 {
        assert!(fm.announce_messages[0].header.sequence_id == s1 && dur_bits(fm.announce_messages[0].age) == a1);
    }
    core::mem::forget(fm);
    (keep0, keep1)
}
#[kani::proof]
#[kani::unwind(9)]
#[kani::stub(<Duration as core::ops::Mul<u16>>::mul, stub_mul_window)]
fn c06_record_purge_keeps_exactly_the_young__single() { let r = c06_record_purge_on(1); kani::cover!(r.0); kani::cover!(!r.0); }
// NOT DISCHARGED (CBMC exhausts 48 GB in ArrayVec::retain over two 250-byte elements); kept for a bigger machine:
// #[kani::proof] #[kani::unwind(9)] #[kani::stub(<Duration as core::ops::Mul<u16>>::mul, stub_mul_window)]
#[allow(dead_code)]
fn c06_record_purge_keeps_exactly_the_young__pair() { let r = c06_record_purge_on(2); kani::cover!(r.0 && !r.1); kani::cover!(!r.0 && r.1); kani::cover!(!r.0 && !r.1); }

/// ForeignMaster::step_age: every stored age grows by exactly `step`, then purge_old_messages(interval) runs
/// once and its answer is returned. BOUND: record with <= 2 messages.
#[kani::proof]
#[kani::unwind(9)]
#[kani::stub(ForeignMaster::purge_old_messages, ForeignMaster::verif_rec_purge)]
fn c06_record_step_age_adds_step_then_purges() {
    let sender = any_port_identity();
    let interval = any_time_interval();
    let n: usize = if kani::any() { 1 } else { 2 };
    let mut fm = ForeignMaster { foreign_master_port_identity: sender, announce_messages: ArrayVec::new() };
    let mut k = 0;
    while k < 2 {
        if k < n { fm.announce_messages.push(any_stored_message(sender, 1i128 << 100)); }
        k += 1;
    }
    let a0 = dur_bits(fm.announce_messages[0].age);
    let a1 = if n > 1 { dur_bits(fm.announce_messages[1].age) } else { 0 };
    let step: i128 = kani::any();
    kani::assume(step >= 0 && step < (1i128 << 100));
    rec_reset();
    let r = fm.step_age(dur_from_bits(step), interval);
    assert!(rec_calls() == 1 && unsafe { REC_INTERVAL } == Some(interval));
    assert!(!r && fm.announce_messages.len() == n);
    assert!(dur_bits(fm.announce_messages[0].age) == a0 + step);
    if n > 1 { assert!(dur_bits(fm.announce_messages[1].age) == a1 + step); }
    kani::cover!(n == 2);
    core::mem::forget(fm);
}

/// ForeignMasterList::step_age: every record is stepped once with the list's own step and announce interval;
/// exactly the records reported empty are removed, the others stay in order.
fn c06_list_step_age_on(shape: [usize; 2]) -> (bool, bool) {
    let own = any_port_identity();
    let interval = any_time_interval();
    let mut list = list_of_shape(own, interval, shape);
    let n0 = n_masters(&list);
    let s_a = if n0 > 0 { Some(sender_of(&list, 0)) } else { None };
    let s_b = if n0 > 1 { Some(sender_of(&list, 1)) } else { None };
    let step: i128 = kani::any();
    kani::assume(step >= 0 && step < (1i128 << 100));
    unsafe { STEP_CALLS = 0; STEP_ARGS_OK = true; STEP_EXPECT = Some((step, interval)); STEP_EMPTIED = [false; 4]; }

    list.step_age(dur_from_bits(step));

    assert!(unsafe { STEP_CALLS } == n0 && unsafe { STEP_ARGS_OK });
    // the loop runs from the last record to the first: call k is record n0-1-k
    let gone_a = n0 > 0 && unsafe { STEP_EMPTIED[n0 - 1] };
    let gone_b = n0 > 1 && unsafe { STEP_EMPTIED[0] };
    assert!(n_masters(&list) == n0 - gone_a as usize - gone_b as usize);
    if let Some(s) = s_a { assert!(index_of(&list, s, KM).is_some() == !gone_a); }
    if let Some(s) = s_b { assert!(index_of(&list, s, KM).is_some() == !gone_b); }
    if n0 == 2 && !gone_a && !gone_b { assert!(sender_of(&list, 0) == s_a.unwrap() && sender_of(&list, 1) == s_b.unwrap()); }
    core::mem::forget(list);
    (gone_a, gone_b)
}
#[kani::proof]
#[kani::unwind(9)]
#[kani::stub(ForeignMaster::step_age, ForeignMaster::verif_stub_step_age)]
fn c06_list_step_age_removes_exactly_the_emptied__one_single() { let r = c06_list_step_age_on([1, 0]); kani::cover!(r.0); kani::cover!(!r.0); }
// NOT DISCHARGED (CBMC exhausts 48 GB in ArrayVec::remove over two 2 KB records); kept for a bigger machine:
// #[kani::proof] #[kani::unwind(9)] #[kani::stub(ForeignMaster::step_age, ForeignMaster::verif_stub_step_age)]
#[allow(dead_code)]
fn c06_list_step_age_removes_exactly_the_emptied__two_singles() { let r = c06_list_step_age_on([1, 1]); kani::cover!(r.0 && !r.1); kani::cover!(!r.0 && r.1); }
