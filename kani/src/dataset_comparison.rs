//! C05 unit "compare": child module of bmc::dataset_comparison.
//! Oracle: IEEE 1588-2019 9.3.4 Figures 34 and 35, written independently as a decision procedure.
#![allow(dead_code, unused_imports, missing_docs)]
use super::*;
use crate::verif_gen::*;

pub(crate) fn any_dataset() -> ComparisonDataset {
    ComparisonDataset {
        gm_priority_1: kani::any(),
        gm_identity: any_clock_identity(),
        gm_clock_quality: any_clock_quality(),
        gm_priority_2: kani::any(),
        steps_removed: kani::any(),
        identity_of_senders: any_clock_identity(),
        identity_of_receiver: any_port_identity(),
    }
}

/// lexicographic order on 8-octet identities (most significant octet first)
fn id_lt(a: &ClockIdentity, b: &ClockIdentity) -> bool {
    let x = u64::from_be_bytes(a.0);
    let y = u64::from_be_bytes(b.0);
    x < y
}

#[derive(Clone, Copy, PartialEq, Debug)]
pub(crate) enum SpecOrd { ABetter, ABetterTopo, BBetter, BBetterTopo, Error1, Error2 }

/// Figure 34 / Figure 35
pub(crate) fn spec_compare(a: &ComparisonDataset, b: &ComparisonDataset) -> SpecOrd {
    if a.gm_identity != b.gm_identity {
        // Figure 34: priority1, class, accuracy, variance, priority2, identity; lower wins
        if a.gm_priority_1 != b.gm_priority_1 {
            return if a.gm_priority_1 < b.gm_priority_1 { SpecOrd::ABetter } else { SpecOrd::BBetter };
        }
        let (qa, qb) = (a.gm_clock_quality, b.gm_clock_quality);
        if qa.clock_class != qb.clock_class {
            return if qa.clock_class < qb.clock_class { SpecOrd::ABetter } else { SpecOrd::BBetter };
        }
        let (aa, ab) = (qa.clock_accuracy.to_primitive(), qb.clock_accuracy.to_primitive());
        if aa != ab {
            return if aa < ab { SpecOrd::ABetter } else { SpecOrd::BBetter };
        }
        if qa.offset_scaled_log_variance != qb.offset_scaled_log_variance {
            return if qa.offset_scaled_log_variance < qb.offset_scaled_log_variance { SpecOrd::ABetter } else { SpecOrd::BBetter };
        }
        if a.gm_priority_2 != b.gm_priority_2 {
            return if a.gm_priority_2 < b.gm_priority_2 { SpecOrd::ABetter } else { SpecOrd::BBetter };
        }
        return if id_lt(&a.gm_identity, &b.gm_identity) { SpecOrd::ABetter } else { SpecOrd::BBetter };
    }
    // Figure 35
    let (sa, sb) = (a.steps_removed as u32, b.steps_removed as u32);
    if sa > sb + 1 { return SpecOrd::BBetter; }
    if sa + 1 < sb { return SpecOrd::ABetter; }
    if sa > sb {
        let (recv, send) = (&a.identity_of_receiver.clock_identity, &a.identity_of_senders);
        return if id_lt(recv, send) { SpecOrd::BBetter } else if id_lt(send, recv) { SpecOrd::BBetterTopo } else { SpecOrd::Error1 };
    }
    if sa < sb {
        let (recv, send) = (&b.identity_of_receiver.clock_identity, &b.identity_of_senders);
        return if id_lt(recv, send) { SpecOrd::ABetter } else if id_lt(send, recv) { SpecOrd::ABetterTopo } else { SpecOrd::Error1 };
    }
    if a.identity_of_senders != b.identity_of_senders {
        return if id_lt(&a.identity_of_senders, &b.identity_of_senders) { SpecOrd::ABetterTopo } else { SpecOrd::BBetterTopo };
    }
    let (pa, pb) = (a.identity_of_receiver.port_number, b.identity_of_receiver.port_number);
    if pa != pb {
        return if pa < pb { SpecOrd::ABetterTopo } else { SpecOrd::BBetterTopo };
    }
    SpecOrd::Error2
}

pub(crate) fn to_spec(o: DatasetOrdering) -> SpecOrd {
    match o {
        DatasetOrdering::Better => SpecOrd::ABetter,
        DatasetOrdering::BetterByTopology => SpecOrd::ABetterTopo,
        DatasetOrdering::Worse => SpecOrd::BBetter,
        DatasetOrdering::WorseByTopology => SpecOrd::BBetterTopo,
        DatasetOrdering::Error1 => SpecOrd::Error1,
        DatasetOrdering::Error2 => SpecOrd::Error2,
    }
}
fn mirror(o: SpecOrd) -> SpecOrd {
    match o {
        SpecOrd::ABetter => SpecOrd::BBetter,
        SpecOrd::ABetterTopo => SpecOrd::BBetterTopo,
        SpecOrd::BBetter => SpecOrd::ABetter,
        SpecOrd::BBetterTopo => SpecOrd::ABetterTopo,
        e => e,
    }
}

/// compare == Figures 34/35 for every pair of data sets (the `unreachable!` is an obligation too)
#[kani::proof]
#[kani::unwind(9)]
fn c05_compare_matches_figures_34_35() {
    let a = any_dataset();
    let b = any_dataset();
    let got = a.compare(&b);
    assert!(to_spec(got) == spec_compare(&a, &b));
    // antisymmetric: swapping the arguments mirrors the verdict
    assert!(to_spec(b.compare(&a)) == mirror(to_spec(got)));
    // as_ordering agrees with the verdict
    let ord = got.as_ordering();
    match to_spec(got) {
        SpecOrd::ABetter | SpecOrd::ABetterTopo => assert!(ord == core::cmp::Ordering::Greater),
        SpecOrd::BBetter | SpecOrd::BBetterTopo => assert!(ord == core::cmp::Ordering::Less),
        _ => assert!(ord == core::cmp::Ordering::Equal),
    }
    kani::cover!(matches!(got, DatasetOrdering::Error1));
    kani::cover!(matches!(got, DatasetOrdering::Error2));
    kani::cover!(matches!(got, DatasetOrdering::BetterByTopology));
}

/// consistency precondition of a real network: equal grandmasterIdentity => equal grandmaster attributes;
/// all data sets were received by this instance (same receiver clock), sender != receiver
fn consistent(a: &ComparisonDataset, b: &ComparisonDataset) -> bool {
    (a.gm_identity != b.gm_identity
        || (a.gm_priority_1 == b.gm_priority_1 && a.gm_clock_quality == b.gm_clock_quality && a.gm_priority_2 == b.gm_priority_2))
        && a.identity_of_receiver.clock_identity == b.identity_of_receiver.clock_identity
        && a.identity_of_senders != a.identity_of_receiver.clock_identity
        && b.identity_of_senders != b.identity_of_receiver.clock_identity
}

/// transitivity of "better or better-by-topology" under the consistency precondition: this is what makes
/// the outcome of max_by independent of the order in which candidates are presented
#[kani::proof]
#[kani::unwind(9)]
fn c05_compare_is_transitive_on_consistent_sets() {
    let a = any_dataset();
    let b = any_dataset();
    let c = any_dataset();
    kani::assume(consistent(&a, &b) && consistent(&b, &c) && consistent(&a, &c));
    let ab = a.compare(&b).as_ordering();
    let bc = b.compare(&c).as_ordering();
    let ac = a.compare(&c).as_ordering();
    use core::cmp::Ordering::*;
    if ab == Greater && bc == Greater { assert!(ac == Greater); }
    if ab == Greater && bc == Equal { assert!(ac == Greater); }
    if ab == Equal && bc == Greater { assert!(ac == Greater); }
    if ab == Equal && bc == Equal { assert!(ac == Equal); }
    kani::cover!(ab == Greater && bc == Greater);
}


/// The comparison data sets are built from the right fields (9.3.4, Table 12 / 9.3.2.4): for an Announce the
/// grandmaster attributes and stepsRemoved of the message, identity of sender = clockIdentity of the message's
/// sourcePortIdentity, identity of receiver = the receiving port; for D0 the defaultDS attributes, stepsRemoved 0,
/// sender = own clock identity, receiver = (own clock identity, port 0). All inputs.
#[kani::proof]
#[kani::unwind(9)]
fn c05_comparison_dataset_constructors() {
    let m = crate::bmc::foreign_master::verif_fm::any_announce();
    let rx = any_port_identity();
    let d = ComparisonDataset::from_announce_message(&m, &rx);
    assert!(d.gm_priority_1 == m.grandmaster_priority_1);
    assert!(d.gm_identity == m.grandmaster_identity);
    assert!(d.gm_clock_quality == m.grandmaster_clock_quality);
    assert!(d.gm_priority_2 == m.grandmaster_priority_2);
    assert!(d.steps_removed == m.steps_removed);
    assert!(d.identity_of_senders == m.header.source_port_identity.clock_identity);
    assert!(d.identity_of_receiver == rx);

    let own = InternalDefaultDS {
        clock_identity: any_clock_identity(),
        number_ports: kani::any(),
        clock_quality: any_clock_quality(),
        priority_1: kani::any(),
        priority_2: kani::any(),
        domain_number: kani::any(),
        slave_only: kani::any(),
        sdo_id: any_sdo_id(),
    };
    let d0 = ComparisonDataset::from_own_data(&own);
    assert!(d0.gm_priority_1 == own.priority_1 && d0.gm_priority_2 == own.priority_2);
    assert!(d0.gm_identity == own.clock_identity && d0.gm_clock_quality == own.clock_quality);
    assert!(d0.steps_removed == 0);
    assert!(d0.identity_of_senders == own.clock_identity);
    assert!(d0.identity_of_receiver == PortIdentity { clock_identity: own.clock_identity, port_number: 0 });
}
