//! C04 units "enums" and "bodies": child module of datastructures::messages (sees the private body
//! modules, ControlField and ManagementAction).
//! Oracle: independent readers written from IEEE 1588-2019 Clause 13.5-13.12 (body layouts),
//! 5.3.3 (Timestamp), 5.3.5 (PortIdentity), 7.6.2.6 Table 5 (clockAccuracy), 7.6.2.8 Table 6
//! (timeSource), 14.1.1 Table 52 (tlvType), Table 36 (messageType).
#![allow(dead_code, unused_imports, missing_docs)]
use super::*;
use crate::datastructures::common::{ClockAccuracy, ClockIdentity, ClockQuality, TimeSource, TlvSet, TlvType};
use crate::verif_gen::*;

// ------------------------------------------------------------------------------------------ spec
fn be16(b: &[u8], o: usize) -> u16 {
    ((b[o] as u16) << 8) | b[o + 1] as u16
}
fn be32(b: &[u8], o: usize) -> u32 {
    ((b[o] as u32) << 24) | ((b[o + 1] as u32) << 16) | ((b[o + 2] as u32) << 8) | b[o + 3] as u32
}
/// 5.3.3: secondsField UInteger48, nanosecondsField UInteger32, both big endian
fn spec_timestamp(b: &[u8], o: usize) -> (u64, u32) {
    let s = ((b[o] as u64) << 40)
        | ((b[o + 1] as u64) << 32)
        | ((b[o + 2] as u64) << 24)
        | ((b[o + 3] as u64) << 16)
        | ((b[o + 4] as u64) << 8)
        | (b[o + 5] as u64);
    (s, be32(b, o + 6))
}
fn ts_eq(t: &WireTimestamp, s: (u64, u32)) -> bool {
    t.seconds == s.0 && t.nanos == s.1
}
/// 5.3.5: clockIdentity Octet[8], portNumber UInteger16
fn pid_eq(p: &PortIdentity, b: &[u8], o: usize) -> bool {
    p.clock_identity.0 == [b[o], b[o + 1], b[o + 2], b[o + 3], b[o + 4], b[o + 5], b[o + 6], b[o + 7]]
        && p.port_number == be16(b, o + 8)
}

// ------------------------------------------------------------------------------------------ enums
/// Table 5: defined clockAccuracy codes survive decode->encode; reserved codes decode to Reserved;
/// 0x80..=0xFD are the alternate-profile range and survive; decode is total.
#[kani::proof]
fn c04_enum_clock_accuracy() {
    let x: u8 = kani::any();
    let a = ClockAccuracy::from_primitive(x);
    let defined = (0x17..=0x31).contains(&x) || (0x80..=0xfe).contains(&x);
    if defined {
        assert!(a.to_primitive() == x);
        assert!(a != ClockAccuracy::Reserved);
    } else {
        assert!(a == ClockAccuracy::Reserved);
    }
    if x == 0xfe {
        assert!(a == ClockAccuracy::Unknown);
    }
    if (0x80..=0xfd).contains(&x) {
        assert!(a == ClockAccuracy::ProfileSpecific(x - 0x80));
    }
    // spot values of Table 5
    if x == 0x17 { assert!(a == ClockAccuracy::PS1); }
    if x == 0x20 { assert!(a == ClockAccuracy::NS25); }
    if x == 0x21 { assert!(a == ClockAccuracy::NS100); }
    if x == 0x23 { assert!(a == ClockAccuracy::US1); }
    if x == 0x29 { assert!(a == ClockAccuracy::MS1); }
    if x == 0x2f { assert!(a == ClockAccuracy::S1); }
    if x == 0x31 { assert!(a == ClockAccuracy::SGT10); }
    // the order of the enumeration follows the code order (used by the BMCA through cmp_numeric)
    let y: u8 = kani::any();
    let b = ClockAccuracy::from_primitive(y);
    let y_defined = (0x17..=0x31).contains(&y) || (0x80..=0xfe).contains(&y);
    if defined && y_defined {
        assert!(a.cmp_numeric(&b) == x.cmp(&y));
    }
}

/// Table 6: every octet survives decode->encode; named sources map to their codes.
#[kani::proof]
fn c04_enum_time_source() {
    let x: u8 = kani::any();
    let t = TimeSource::from_primitive(x);
    assert!(t.to_primitive() == x);
    match x {
        0x10 => assert!(t == TimeSource::AtomicClock),
        0x20 => assert!(t == TimeSource::Gnss),
        0x30 => assert!(t == TimeSource::TerrestrialRadio),
        0x39 => assert!(t == TimeSource::SerialTimeCode),
        0x40 => assert!(t == TimeSource::Ptp),
        0x50 => assert!(t == TimeSource::Ntp),
        0x60 => assert!(t == TimeSource::HandSet),
        0x90 => assert!(t == TimeSource::Other),
        0xa0 => assert!(t == TimeSource::InternalOscillator),
        0xf0..=0xfe => assert!(t == TimeSource::ProfileSpecific(x - 0xf0)),
        0xff => assert!(t == TimeSource::Reserved),
        _ => assert!(t == TimeSource::Unknown(x)),
    }
}

/// Table 52: every 16-bit tlvType survives decode->encode; propagation rule of 14.2.2.2
/// (PATH_TRACE, ALTERNATE_TIME_OFFSET_INDICATOR and the 0x4000..=0x7FFF range are propagated).
#[kani::proof]
fn c04_enum_tlv_type() {
    let x: u16 = kani::any();
    let t = TlvType::from_primitive(x);
    assert!(t.to_primitive() == x);
    let propagate = x == 0x0008 || x == 0x0009 || (0x4000..=0x7fff).contains(&x);
    assert!(t.announce_propagate() == propagate);
    match x {
        0x0001 => assert!(t == TlvType::Management),
        0x0002 => assert!(t == TlvType::ManagementErrorStatus),
        0x0003 => assert!(t == TlvType::OrganizationExtension),
        0x0008 => assert!(t == TlvType::PathTrace),
        0x0009 => assert!(t == TlvType::AlternateTimeOffsetIndicator),
        0x4000 => assert!(t == TlvType::OrganizationExtensionPropagate),
        0x4001 => assert!(t == TlvType::EnhancedAccuracyMetrics),
        0x8000 => assert!(t == TlvType::OrganizationExtensionDoNotPropagate),
        0x8001 => assert!(t == TlvType::L1Sync),
        0x8008 => assert!(t == TlvType::Pad),
        0x8009 => assert!(t == TlvType::Authentication),
        _ => {}
    }
}

/// Table 36 messageType and Table 42 controlField; ManagementAction (Table 57) self-consistent.
#[kani::proof]
fn c04_enum_message_type_control_action() {
    let x: u8 = kani::any();
    match MessageType::try_from(x) {
        Ok(t) => {
            assert!(t as u8 == x);
            assert!(matches!(x, 0x0 | 0x1 | 0x2 | 0x3 | 0x8 | 0x9 | 0xa | 0xb | 0xc | 0xd));
            let c = control_field::ControlField::from(t).to_primitive();
            let want = match x { 0x0 => 0, 0x1 => 1, 0x8 => 2, 0x9 => 3, 0xd => 4, _ => 5 };
            assert!(c == want);
        }
        Err(_) => assert!(!matches!(x, 0x0 | 0x1 | 0x2 | 0x3 | 0x8 | 0x9 | 0xa | 0xb | 0xc | 0xd)),
    }
    let a = management::ManagementAction::from_primitive(x);
    if x <= 4 {
        assert!(a.to_primitive() == x);
    } else {
        assert!(a == management::ManagementAction::Reserved);
    }
}

// ------------------------------------------------------------------------------------------ bodies
fn any_header_for_body() -> Header {
    any_header()
}

/// bodies that consist of one Timestamp: Sync (13.6), Delay_Req (13.6), Follow_Up (13.7)
#[kani::proof]
fn c04_body_sync_delayreq_followup() {
    let b: [u8; 10] = kani::any();
    let h = any_header_for_body();
    let want = spec_timestamp(&b, 0);
    let which: u8 = kani::any();
    kani::assume(which < 3);
    let (t, body) = match which {
        0 => (MessageType::Sync, MessageBody::deserialize(MessageType::Sync, &h, &b).unwrap()),
        1 => (MessageType::DelayReq, MessageBody::deserialize(MessageType::DelayReq, &h, &b).unwrap()),
        _ => (MessageType::FollowUp, MessageBody::deserialize(MessageType::FollowUp, &h, &b).unwrap()),
    };
    match &body {
        MessageBody::Sync(m) => assert!(which == 0 && ts_eq(&m.origin_timestamp, want)),
        MessageBody::DelayReq(m) => assert!(which == 1 && ts_eq(&m.origin_timestamp, want)),
        MessageBody::FollowUp(m) => assert!(which == 2 && ts_eq(&m.precise_origin_timestamp, want)),
        _ => assert!(false, "wrong body variant"),
    }
    assert!(body.content_type() == t);
    assert!(body.wire_size() == 10);
    // encode writes exactly the declared size and reproduces the defined bytes
    let mut out: [u8; 12] = kani::any();
    let guard = (out[10], out[11]);
    let n = body.serialize(&mut out[..10]).unwrap();
    assert!(n == 10);
    assert!(out[..10] == b[..]);
    assert!((out[10], out[11]) == guard);
    // too short: error, never a panic
    let k: usize = kani::any();
    kani::assume(k < 10);
    assert!(MessageBody::deserialize(t, &h, &b[..k]).is_err());
}

/// Delay_Resp (13.8), Pdelay_Resp (13.10), Pdelay_Resp_Follow_Up (13.11): Timestamp + PortIdentity
#[kani::proof]
fn c04_body_delayresp_pdelayresp_pdelayrespfollowup() {
    let b: [u8; 20] = kani::any();
    let h = any_header_for_body();
    let want = spec_timestamp(&b, 0);
    let which: u8 = kani::any();
    kani::assume(which < 3);
    let t = match which { 0 => MessageType::DelayResp, 1 => MessageType::PDelayResp, _ => MessageType::PDelayRespFollowUp };
    let body = MessageBody::deserialize(t, &h, &b).unwrap();
    match &body {
        MessageBody::DelayResp(m) => assert!(which == 0 && ts_eq(&m.receive_timestamp, want) && pid_eq(&m.requesting_port_identity, &b, 10)),
        MessageBody::PDelayResp(m) => assert!(which == 1 && ts_eq(&m.request_receive_timestamp, want) && pid_eq(&m.requesting_port_identity, &b, 10)),
        MessageBody::PDelayRespFollowUp(m) => assert!(which == 2 && ts_eq(&m.response_origin_timestamp, want) && pid_eq(&m.requesting_port_identity, &b, 10)),
        _ => assert!(false, "wrong body variant"),
    }
    assert!(body.content_type() == t);
    assert!(body.wire_size() == 20);
    let mut out: [u8; 22] = kani::any();
    let guard = (out[20], out[21]);
    let n = body.serialize(&mut out[..20]).unwrap();
    assert!(n == 20);
    assert!(out[..20] == b[..]);
    assert!((out[20], out[21]) == guard);
    let k: usize = kani::any();
    kani::assume(k < 20);
    assert!(MessageBody::deserialize(t, &h, &b[..k]).is_err());
}

/// Pdelay_Req (13.9): Timestamp + 10 reserved octets (sent as zero)
#[kani::proof]
fn c04_body_pdelayreq() {
    let b: [u8; 20] = kani::any();
    let h = any_header_for_body();
    let body = MessageBody::deserialize(MessageType::PDelayReq, &h, &b).unwrap();
    match &body {
        MessageBody::PDelayReq(m) => assert!(ts_eq(&m.origin_timestamp, spec_timestamp(&b, 0))),
        _ => assert!(false, "wrong body variant"),
    }
    assert!(body.content_type() == MessageType::PDelayReq);
    assert!(body.wire_size() == 20);
    let mut out: [u8; 22] = kani::any();
    let guard = (out[20], out[21]);
    let n = body.serialize(&mut out[..20]).unwrap();
    assert!(n == 20);
    assert!(out[..10] == b[..10]);
    let mut i = 10;
    while i < 20 {
        assert!(out[i] == 0);
        i += 1;
    }
    assert!((out[20], out[21]) == guard);
    let k: usize = kani::any();
    kani::assume(k < 20);
    assert!(MessageBody::deserialize(MessageType::PDelayReq, &h, &b[..k]).is_err());
}

/// Announce (13.5, Table 43)
#[kani::proof]
fn c04_body_announce() {
    let b: [u8; 30] = kani::any();
    let h = any_header_for_body();
    let body = MessageBody::deserialize(MessageType::Announce, &h, &b).unwrap();
    let m = match &body {
        MessageBody::Announce(m) => *m,
        _ => { assert!(false); return; }
    };
    assert!(m.header == h);
    assert!(ts_eq(&m.origin_timestamp, spec_timestamp(&b, 0)));
    assert!(m.current_utc_offset == be16(&b, 10) as i16);
    assert!(m.grandmaster_priority_1 == b[13]);
    assert!(m.grandmaster_clock_quality.clock_class == b[14]);
    assert!(m.grandmaster_clock_quality.clock_accuracy == ClockAccuracy::from_primitive(b[15]));
    assert!(m.grandmaster_clock_quality.offset_scaled_log_variance == be16(&b, 16));
    assert!(m.grandmaster_priority_2 == b[18]);
    assert!(m.grandmaster_identity.0 == [b[19], b[20], b[21], b[22], b[23], b[24], b[25], b[26]]);
    assert!(m.steps_removed == be16(&b, 27));
    assert!(m.time_source == TimeSource::from_primitive(b[29]));
    assert!(body.content_type() == MessageType::Announce);
    assert!(body.wire_size() == 30);
    let mut out: [u8; 32] = kani::any();
    let guard = (out[30], out[31]);
    let n = body.serialize(&mut out[..30]).unwrap();
    assert!(n == 30);
    assert!(out[..12] == b[..12]);
    assert!(out[13] == b[13] && out[14] == b[14]);
    // clockAccuracy: defined codes byte-identical, reserved codes re-encode as 0 (reserved aside)
    let acc_defined = (0x17..=0x31).contains(&b[15]) || (0x80..=0xfe).contains(&b[15]);
    if acc_defined { assert!(out[15] == b[15]); }
    assert!(out[16..30] == b[16..30]);
    assert!((out[30], out[31]) == guard);
    // decode(encode(decode(b))) == decode(b)
    let body2 = MessageBody::deserialize(MessageType::Announce, &h, &out[..30]).unwrap();
    assert!(body2 == body);
    let k: usize = kani::any();
    kani::assume(k < 30);
    assert!(MessageBody::deserialize(MessageType::Announce, &h, &b[..k]).is_err());
}

/// Signaling / Management bodies (Clause 15/16 layouts are outside the property's Clause 13 claim):
/// self-consistency only: decode total, encode(decode(b)) decodes to the same value, sizes as declared.
#[kani::proof]
fn c04_body_signaling_management_self_consistent() {
    let b: [u8; 14] = kani::any();
    let h = any_header_for_body();
    let sig = MessageBody::deserialize(MessageType::Signaling, &h, &b).unwrap();
    assert!(sig.wire_size() == 10 && sig.content_type() == MessageType::Signaling);
    let mut out: [u8; 14] = kani::any();
    assert!(sig.serialize(&mut out[..10]).unwrap() == 10);
    assert!(MessageBody::deserialize(MessageType::Signaling, &h, &out[..10]).unwrap() == sig);
    let man = MessageBody::deserialize(MessageType::Management, &h, &b).unwrap();
    assert!(man.wire_size() == 14 && man.content_type() == MessageType::Management);
    let mut out2: [u8; 14] = kani::any();
    assert!(man.serialize(&mut out2).unwrap() == 14);
    assert!(MessageBody::deserialize(MessageType::Management, &h, &out2).unwrap() == man);
    let k: usize = kani::any();
    kani::assume(k < 10);
    assert!(MessageBody::deserialize(MessageType::Signaling, &h, &b[..k]).is_err());
    let k2: usize = kani::any();
    kani::assume(k2 < 14);
    assert!(MessageBody::deserialize(MessageType::Management, &h, &b[..k2]).is_err());
}


// ------------------------------------------------------------------------------------------ framing (encode side)
/// `Message::serialize` glue: header at 0..34 with messageLength = wire_size, body at 34.., TLV suffix after it;
/// returns wire_size; the bytes are what the header / body serializers write (whose Clause-13 conformance is
/// proved by the harnesses above). Checked for every header, every fixed-size body type, empty suffix.
#[kani::proof]
#[kani::unwind(40)]
fn c04_message_serialize_layout() {
    let h = any_header();
    let kind: u8 = kani::any();
    kani::assume(kind < 4);
    let body = match kind {
        0 => MessageBody::Sync(SyncMessage { origin_timestamp: any_wire_timestamp() }),
        1 => MessageBody::DelayResp(DelayRespMessage { receive_timestamp: any_wire_timestamp(), requesting_port_identity: any_port_identity() }),
        2 => MessageBody::PDelayReq(PDelayReqMessage { origin_timestamp: any_wire_timestamp() }),
        _ => MessageBody::FollowUp(FollowUpMessage { precise_origin_timestamp: any_wire_timestamp() }),
    };
    let t = body.content_type();
    let size = body.wire_size();
    let m = Message { header: h, body: body.clone(), suffix: TlvSet::default() };
    let mut out = [0xa5u8; 64];
    let n = m.serialize(&mut out).unwrap();
    assert!(n == 34 + size && n == m.wire_size());
    // header part == serialize_header(type, content length)
    let mut hdr = [0u8; 34];
    h.serialize_header(t, size, &mut hdr).unwrap();
    assert!(out[..34] == hdr[..]);
    assert!(be16(&out, 2) as usize == n);
    // body part == body serializer
    let mut b = [0u8; 20];
    body.serialize(&mut b[..size]).unwrap();
    assert!(out[34..34 + size] == b[..size]);
    // nothing after the message is touched
    assert!(out[34 + size] == 0xa5 || 34 + size == 64);
    // and the library's own parser reads it back
    let back = Message::deserialize(&out[..n]).unwrap();
    assert!(back.header == h && back.body == body && back.suffix.wire_size() == 0);
}

// ------------------------------------------------------------------------------------------ recording stub
// Port-level harnesses replace `Message::serialize` by its contract: "returns wire_size" -- and record the
// message handed to it, so emitted frames are compared with the specification as *messages*; that the bytes of
// a message are the Clause-13 encoding is the C04 obligation above (reading 64 octets back out of the port's
// packet buffer after ~50 conditional writes sends CBMC's simplifier into an exponential blow-up).
pub(crate) static mut LAST_SERIALIZED: Option<(Header, MessageBody, usize)> = None;
pub(crate) static mut N_SERIALIZED: u32 = 0;
impl<'a> Message<'a> {
    pub(crate) fn verif_recording_serialize(&self, buffer: &mut [u8]) -> Result<usize, super::WireFormatError> {
        // precondition of the real serializer: the buffer holds the message
        assert!(buffer.len() >= self.wire_size());
        unsafe {
            LAST_SERIALIZED = Some((self.header, self.body.clone(), self.suffix.wire_size()));
            N_SERIALIZED = N_SERIALIZED.wrapping_add(1);
        }
        Ok(self.wire_size())
    }
}
#[allow(static_mut_refs)]
pub(crate) fn last_serialized() -> (Header, MessageBody, usize) {
    unsafe {
        assert!(N_SERIALIZED == 1);
        LAST_SERIALIZED.clone().unwrap()
    }
}
pub(crate) fn reset_serialized() {
    unsafe { LAST_SERIALIZED = None; N_SERIALIZED = 0; }
}
#[allow(static_mut_refs)]
pub(crate) fn n_serialized() -> u32 { unsafe { N_SERIALIZED } }
