//! child module of `time`: re-exports the zero-cost bit accessors of the private submodules
#![allow(dead_code, missing_docs)]
use super::{Duration, Time};
pub(crate) fn dur_from_bits(b: i128) -> Duration { super::duration::verif_bits::from_bits(b) }
pub(crate) fn dur_bits(d: Duration) -> i128 { super::duration::verif_bits::bits(d) }
pub(crate) fn time_from_bits(b: u128) -> Time { super::instant::verif_bits::from_bits(b) }
pub(crate) fn time_bits(t: Time) -> u128 { super::instant::verif_bits::bits(t) }

// ------------------------------------------------------------------------------------------------
// C16: Kani counterparts of the Verus contracts that CBMC can decide (no 128-bit fixed * / %). They serve two
// purposes: a second, independent engine on the same contracts, and a source of concrete failing inputs when a
// Verus obligation of unit "time" fails (Verus itself gives no counterexample) -- see props.VERUS_PAIRS.
// ------------------------------------------------------------------------------------------------
use crate::datastructures::common::{TimeInterval, WireTimestamp};

/// Duration -> TimeInterval rounds toward minus infinity to 2^-16 ns (within the i64 range of the target)
#[kani::proof]
fn c16_pair_duration_to_interval_floor() {
    let b: i128 = kani::any();
    kani::assume(b >= (i64::MIN as i128) << 16 && b < ((i64::MAX as i128) + 1) << 16);
    let ti = TimeInterval::from(dur_from_bits(b));
    let r = ti.0.to_bits() as i128;
    assert!(r << 16 <= b && b < (r + 1) << 16);
}

/// every wire time interval converts to a duration and back unchanged
#[kani::proof]
fn c16_pair_interval_round_trip() {
    let x: i64 = kani::any();
    let ti = TimeInterval(fixed::types::I48F16::from_bits(x));
    let d = Duration::from(ti);
    assert!(dur_bits(d) == (x as i128) << 16);
    assert!(TimeInterval::from(d).0.to_bits() == x);
}

/// t + d - d == t and (a - b) + b == a, exactly, over the PTP range
#[kani::proof]
fn c16_pair_add_sub_exact() {
    let t: u128 = kani::any();
    let d: i128 = kani::any();
    kani::assume(t < (1u128 << 110) && d > -(1i128 << 110) && d < (1i128 << 110) && (t as i128) + d >= 0);
    let tt = time_from_bits(t);
    let dd = dur_from_bits(d);
    let sum = tt + dd;
    assert!(time_bits(sum) as i128 == t as i128 + d);
    assert!(time_bits(sum - dd) == t);
    let u: u128 = kani::any();
    kani::assume(u < (1u128 << 110));
    let diff = tt - time_from_bits(u);
    assert!(dur_bits(diff) == t as i128 - u as i128);
    assert!(time_bits(time_from_bits(u) + diff) == t);
}

/// wire timestamp -> Time: (seconds * 10^9 + nanoseconds) * 2^32
#[kani::proof]
fn c16_pair_time_of_wire() {
    let s: u64 = kani::any();
    let n: u32 = kani::any();
    kani::assume(s < (1u64 << 48));
    let t = Time::from(WireTimestamp { seconds: s, nanos: n });
    assert!(time_bits(t) == ((s as u128) * 1_000_000_000 + n as u128) << 32);
}

/// sub-nanosecond part: bits 16..32 of the 2^-32 ns fraction, as 2^-16 ns units
#[kani::proof]
fn c16_pair_subnano() {
    let t: u128 = kani::any();
    let s = time_from_bits(t).subnano();
    assert!(s.0.to_bits() as u128 == (t & 0xffff_ffff) >> 16);
}
