//! child module of `time`: re-exports the zero-cost bit accessors of the private submodules
#![allow(dead_code, missing_docs)]
use super::{Duration, Time};
pub(crate) fn dur_from_bits(b: i128) -> Duration { super::duration::verif_bits::from_bits(b) }
pub(crate) fn dur_bits(d: Duration) -> i128 { super::duration::verif_bits::bits(d) }
pub(crate) fn time_from_bits(b: u128) -> Time { super::instant::verif_bits::from_bits(b) }
pub(crate) fn time_bits(t: Time) -> u128 { super::instant::verif_bits::bits(t) }
