//! child module of time::duration: zero-cost constructor / accessor for the private bit pattern
#![allow(dead_code, missing_docs)]
use super::*;
pub(crate) fn from_bits(b: i128) -> Duration {
    Duration { inner: I96F32::from_bits(b) }
}
pub(crate) fn bits(d: Duration) -> i128 {
    d.inner.to_bits()
}

// ------------------------------------------------------------------------------------------------
// C19 (serde representation clause): `Duration::serialize` hands the complete 128-bit pattern to the
// serializer as one i128, and `Duration::deserialize` rebuilds exactly the i128 it is given -- so whatever
// integer-faithful format carries it (serde_json in the daemon), no bits are lost in the library's part.
// ------------------------------------------------------------------------------------------------
#[cfg(feature = "serde")]
mod serde_contract {
    use super::*;
    use serde::ser::{Impossible, Serializer};
    use serde::Serialize;

    #[derive(Debug)]
    struct NoErr;
    impl core::fmt::Display for NoErr {
        fn fmt(&self, _f: &mut core::fmt::Formatter<'_>) -> core::fmt::Result { Ok(()) }
    }
    impl serde::ser::StdError for NoErr {}
    impl serde::ser::Error for NoErr {
        fn custom<T: core::fmt::Display>(_msg: T) -> Self { NoErr }
    }

    /// records which primitive the value was serialized as
    #[derive(Clone, Copy, PartialEq, Debug)]
    enum Seen { I128(i128), I64(i64), Other }
    struct Rec;
    macro_rules! other {
        ($($name:ident($t:ty)),*) => { $( fn $name(self, _v: $t) -> Result<Seen, NoErr> { Ok(Seen::Other) } )* };
    }
    impl Serializer for Rec {
        type Ok = Seen;
        type Error = NoErr;
        type SerializeSeq = Impossible<Seen, NoErr>;
        type SerializeTuple = Impossible<Seen, NoErr>;
        type SerializeTupleStruct = Impossible<Seen, NoErr>;
        type SerializeTupleVariant = Impossible<Seen, NoErr>;
        type SerializeMap = Impossible<Seen, NoErr>;
        type SerializeStruct = Impossible<Seen, NoErr>;
        type SerializeStructVariant = Impossible<Seen, NoErr>;
        fn serialize_i128(self, v: i128) -> Result<Seen, NoErr> { Ok(Seen::I128(v)) }
        fn serialize_i64(self, v: i64) -> Result<Seen, NoErr> { Ok(Seen::I64(v)) }
        other!(serialize_bool(bool), serialize_i8(i8), serialize_i16(i16), serialize_i32(i32), serialize_u8(u8), serialize_u16(u16),
               serialize_u32(u32), serialize_u64(u64), serialize_u128(u128), serialize_f32(f32), serialize_f64(f64), serialize_char(char),
               serialize_str(&str), serialize_bytes(&[u8]), serialize_unit_struct(&'static str));
        fn serialize_none(self) -> Result<Seen, NoErr> { Ok(Seen::Other) }
        fn serialize_some<T: ?Sized + Serialize>(self, _v: &T) -> Result<Seen, NoErr> { Ok(Seen::Other) }
        fn serialize_unit(self) -> Result<Seen, NoErr> { Ok(Seen::Other) }
        fn serialize_unit_variant(self, _n: &'static str, _i: u32, _v: &'static str) -> Result<Seen, NoErr> { Ok(Seen::Other) }
        fn serialize_newtype_struct<T: ?Sized + Serialize>(self, _n: &'static str, _v: &T) -> Result<Seen, NoErr> { Ok(Seen::Other) }
        fn serialize_newtype_variant<T: ?Sized + Serialize>(self, _n: &'static str, _i: u32, _v: &'static str, _x: &T) -> Result<Seen, NoErr> { Ok(Seen::Other) }
        fn serialize_seq(self, _l: Option<usize>) -> Result<Self::SerializeSeq, NoErr> { Err(NoErr) }
        fn serialize_tuple(self, _l: usize) -> Result<Self::SerializeTuple, NoErr> { Err(NoErr) }
        fn serialize_tuple_struct(self, _n: &'static str, _l: usize) -> Result<Self::SerializeTupleStruct, NoErr> { Err(NoErr) }
        fn serialize_tuple_variant(self, _n: &'static str, _i: u32, _v: &'static str, _l: usize) -> Result<Self::SerializeTupleVariant, NoErr> { Err(NoErr) }
        fn serialize_map(self, _l: Option<usize>) -> Result<Self::SerializeMap, NoErr> { Err(NoErr) }
        fn serialize_struct(self, _n: &'static str, _l: usize) -> Result<Self::SerializeStruct, NoErr> { Err(NoErr) }
        fn serialize_struct_variant(self, _n: &'static str, _i: u32, _v: &'static str, _l: usize) -> Result<Self::SerializeStructVariant, NoErr> { Err(NoErr) }
    }

    #[kani::proof]
    fn c19_duration_serializes_its_full_bit_pattern() {
        let b: i128 = kani::any();
        let d = from_bits(b);
        assert!(d.serialize(Rec).unwrap() == Seen::I128(b));
        // the wire time interval (observed as delay asymmetry / mean link delay) likewise, as its 64 bits
        let t: i64 = kani::any();
        let ti = crate::datastructures::common::TimeInterval(fixed::types::I48F16::from_bits(t));
        assert!(ti.serialize(Rec).unwrap() == Seen::I64(t));
    }
}
