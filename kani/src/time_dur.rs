//! child module of time::duration: zero-cost constructor / accessor for the private bit pattern
#![allow(dead_code, missing_docs)]
use super::*;
pub(crate) fn from_bits(b: i128) -> Duration {
    Duration { inner: I96F32::from_bits(b) }
}
pub(crate) fn bits(d: Duration) -> i128 {
    d.inner.to_bits()
}
