//! C05 / C06 unit "bmca": child module of bmc::bmca. State decision (9.3.3, Figure 33) and Erbest selection.
#![allow(dead_code, unused_imports, missing_docs)]
use super::*;
use crate::bmc::dataset_comparison::verif_cmp::{spec_compare, to_spec, SpecOrd};
use crate::bmc::foreign_master::verif_fm;
use crate::datastructures::common::{ClockQuality, PortIdentity, TimeInterval};
use crate::verif_gen::*;

pub(crate) fn fm_list<A>(b: &Bmca<A>) -> &ForeignMasterList { &b.foreign_master_list }
pub(crate) fn set_fm_list<A>(b: &mut Bmca<A>, l: ForeignMasterList) { b.foreign_master_list = l; }
pub(crate) fn own_identity<A>(b: &Bmca<A>) -> PortIdentity { b.own_port_identity }

pub(crate) fn mk_best(message: AnnounceMessage, age_bits: i128, identity: PortIdentity) -> BestAnnounceMessage {
    BestAnnounceMessage { header: message.header, message, age: verif_fm::dur_from_bits(age_bits), identity }
}
pub(crate) fn any_best() -> BestAnnounceMessage {
    let age: i128 = kani::any();
    kani::assume(age >= 0 && age < (1i128 << 100));
    mk_best(verif_fm::any_announce(), age, any_port_identity())
}
pub(crate) fn best_message(b: &BestAnnounceMessage) -> AnnounceMessage { b.message }
pub(crate) fn best_identity(b: &BestAnnounceMessage) -> PortIdentity { b.identity }

pub(crate) fn any_default_ds() -> InternalDefaultDS {
    InternalDefaultDS {
        clock_identity: any_clock_identity(),
        number_ports: kani::any(),
        clock_quality: any_clock_quality(),
        priority_1: kani::any(),
        priority_2: kani::any(),
        domain_number: kani::any(),
        slave_only: kani::any(),
        sdo_id: any_sdo_id(),
    }
}

/// D0 per 9.3.4: the data set of the local clock
fn spec_d0(d: &InternalDefaultDS) -> ComparisonDataset {
    ComparisonDataset::from_own_data(d)
}
fn ds_of(b: &BestAnnounceMessage) -> ComparisonDataset {
    ComparisonDataset::from_announce_message(&b.message, &b.identity)
}
/// "D0 better or better by topology than E, or equal" (Figure 33 uses the comparison of 9.3.4)
fn d0_wins(d: &InternalDefaultDS, e: &Option<BestAnnounceMessage>) -> bool {
    match e {
        None => true,
        Some(e) => !matches!(spec_compare(&spec_d0(d), &ds_of(e)), SpecOrd::BBetter | SpecOrd::BBetterTopo),
    }
}

#[derive(Clone, Copy, PartialEq, Debug)]
pub(crate) enum SpecDecision { None, M1, M2, M3, P1, P2, S1 }

/// Figure 33 with statime's documented deviations:
///  * a LISTENING port without Erbest stays LISTENING (1588-2008 behaviour)
///  * class 1..127: only Erbest of the port is considered (M1 / P1)
pub(crate) fn spec_decision(d: &InternalDefaultDS, ebest: &Option<BestAnnounceMessage>, erbest: &Option<BestAnnounceMessage>, listening: bool) -> SpecDecision {
    if erbest.is_none() && listening { return SpecDecision::None; }
    let class = d.clock_quality.clock_class;
    if class >= 1 && class <= 127 {
        return if d0_wins(d, erbest) { SpecDecision::M1 } else { SpecDecision::P1 };
    }
    if d0_wins(d, ebest) { return SpecDecision::M2; }
    let eb = ebest.unwrap();
    match erbest {
        None => SpecDecision::M3,
        Some(er) => {
            if eb == *er { SpecDecision::S1 }
            else if spec_compare(&ds_of(&eb), &ds_of(er)) == SpecOrd::ABetterTopo { SpecDecision::P2 }
            else { SpecDecision::M3 }
        }
    }
}

pub(crate) fn decision_of(r: &Option<RecommendedState>) -> SpecDecision {
    match r {
        None => SpecDecision::None,
        Some(RecommendedState::M1(_)) => SpecDecision::M1,
        Some(RecommendedState::M2(_)) => SpecDecision::M2,
        Some(RecommendedState::M3(_)) => SpecDecision::M3,
        Some(RecommendedState::P1(_)) => SpecDecision::P1,
        Some(RecommendedState::P2(_)) => SpecDecision::P2,
        Some(RecommendedState::S1(_)) => SpecDecision::S1,
    }
}

/// calculate_recommended_state == Figure 33 (+ deviations) for all own data sets, all Ebest / Erbest, all states;
/// and the payload of the decision is the right data set (own for M1/M2, Erbest for P1/P2, Ebest for M3/S1).
#[kani::proof]
#[kani::unwind(9)]
fn c05_state_decision_matches_figure_33() {
    let d = any_default_ds();
    let ebest = if kani::any() { Some(any_best()) } else { None };
    let erbest = if kani::any() { Some(any_best()) } else { None };
    let tag: u8 = kani::any();
    kani::assume(tag < 4);
    let state = match tag { 0 => PortState::Faulty, 1 => PortState::Listening, 2 => PortState::Master, _ => PortState::Passive };
    let got = Bmca::<()>::calculate_recommended_state(&d, ebest, erbest, &state);
    let want = spec_decision(&d, &ebest, &erbest, tag == 1);
    assert!(decision_of(&got) == want);
    match &got {
        Some(RecommendedState::M1(x)) | Some(RecommendedState::M2(x)) => assert!(*x == d),
        Some(RecommendedState::P1(m)) | Some(RecommendedState::P2(m)) => assert!(*m == erbest.unwrap().message),
        Some(RecommendedState::M3(m)) | Some(RecommendedState::S1(m)) => assert!(*m == ebest.unwrap().message),
        None => {}
    }
    // C08: S1 only for the port that received Ebest (same message *and* same receiving port identity)
    if want == SpecDecision::S1 { assert!(erbest.unwrap().identity == ebest.unwrap().identity); }
    kani::cover!(want == SpecDecision::S1);
    kani::cover!(want == SpecDecision::P2);
    kani::cover!(want == SpecDecision::M3);
    kani::cover!(want == SpecDecision::P1);
    kani::cover!(want == SpecDecision::None);
}

/// find_best_announce_message over two candidates of a consistent network: the result is one of the inputs
/// and is not worse than the other (data set comparison, then age as tie-break: the newer one wins).
/// For more candidates the same follows from std's `max_by` and the two machine-checked facts that the
/// relation is antisymmetric (c05_compare_matches_figures_34_35) and transitive on consistent sets
/// (c05_compare_is_transitive_on_consistent_sets) -- that last step is a paper argument.
#[kani::proof]
#[kani::unwind(9)]
fn c05_find_best_is_a_maximum() {
    let a = any_best();
    let b = any_best();
    let n: u8 = kani::any();
    kani::assume(n <= 2);
    let mut v: ArrayVec3 = arrayvec::ArrayVec::new();
    if n >= 1 { v.push(a); }
    if n >= 2 { v.push(b); }
    let best = Bmca::<()>::find_best_announce_message(v.clone());
    assert!(best.is_some() == (n > 0));
    if let Some(best) = best {
        assert!(best == a || (n == 2 && best == b));
        if n == 2 {
            let other = if best == a { b } else { a };
            let ord = to_spec(ds_of(&best).compare(&ds_of(&other)));
            // never worse by the data set comparison; on a tie never older
            assert!(!matches!(ord, SpecOrd::BBetter | SpecOrd::BBetterTopo));
            if matches!(ord, SpecOrd::Error1 | SpecOrd::Error2) {
                assert!(verif_fm::dur_bits(best.age) <= verif_fm::dur_bits(other.age));
            }
        }
    }
}
type ArrayVec3 = arrayvec::ArrayVec<BestAnnounceMessage, 3>;


/// BOUND: foreign-master table with <= 2 records of <= 2 messages.
/// take_best_port_announce_message: Erbest is the newest message of a record with >= 2 messages (C06), tagged
/// with the receiving port's identity; the chosen message is put back *with its age* (so it keeps ageing and
/// expires with the window), the newest messages of the other qualified records are consumed.
fn c06_take_best_keeps_age_and_needs_two_on(shape: [usize; 2]) {
    let own = any_port_identity();
    let interval = TimeInterval(fixed::types::I48F16::from_bits(verif_fm::CONCRETE_INTERVAL_BITS));
    let list = verif_fm::list_of_shape_ages(own, interval, shape, true);
    let n0 = verif_fm::n_masters(&list);
    let len_a = if n0 > 0 { verif_fm::n_messages_of(&list, 0) } else { 0 };
    let len_b = if n0 > 1 { verif_fm::n_messages_of(&list, 1) } else { 0 };
    let mut bmca = Bmca::new(crate::config::AcceptAnyMaster, interval, own);
    bmca.foreign_master_list = list;

    let best = bmca.take_best_port_announce_message();

    assert!(best.is_some() == (len_a >= 2 || len_b >= 2));
    if let Some(b) = best {
        assert!(b.identity == own);
        assert!(b.message.steps_removed < 255);
        assert!(b.message.header.source_port_identity.clock_identity != own.clock_identity);
        let sender = b.message.header.source_port_identity;
        let idx = verif_fm::index_of(&bmca.foreign_master_list, sender, 2).unwrap();
        // the record of the chosen master is complete again and its newest message has the age it had
        let (seq, age) = verif_fm::newest_of(&bmca.foreign_master_list, idx);
        assert!(seq == b.header.sequence_id);
        assert!(age == verif_fm::dur_bits(b.age));
        assert!(verif_fm::n_messages_of(&bmca.foreign_master_list, idx) == 2);
    }
    assert!(verif_fm::valid(&bmca.foreign_master_list, 2, 2));
    // reachability of the end of the harness (vacuity guard)
    kani::cover!();
}
#[kani::proof]
#[kani::unwind(9)]
#[kani::stub(<Duration as core::ops::Mul<u16>>::mul, verif_fm::stub_mul_window)]
fn c06_take_best_keeps_age_and_needs_two__one_single() { c06_take_best_keeps_age_and_needs_two_on([1, 0]) }
#[kani::proof]
#[kani::unwind(9)]
#[kani::stub(<Duration as core::ops::Mul<u16>>::mul, verif_fm::stub_mul_window)]
fn c06_take_best_keeps_age_and_needs_two__one_pair() { c06_take_best_keeps_age_and_needs_two_on([2, 0]) }
#[kani::proof]
#[kani::unwind(9)]
#[kani::stub(<Duration as core::ops::Mul<u16>>::mul, verif_fm::stub_mul_window)]
fn c06_take_best_keeps_age_and_needs_two__pair_and_single() { c06_take_best_keeps_age_and_needs_two_on([2, 1]) }
#[kani::proof]
#[kani::unwind(9)]
#[kani::stub(<Duration as core::ops::Mul<u16>>::mul, verif_fm::stub_mul_window)]
fn c06_take_best_keeps_age_and_needs_two__two_pairs() { c06_take_best_keeps_age_and_needs_two_on([2, 2]) }



/// CONCRETE INSTANCE (the symbolic versions above exhaust CBMC's memory for records with two messages):
/// one foreign master with two stored Announces (sequence ids 41, 42; ages 1000 and 2000 units), 1 s interval.
/// Erbest is the newest one, tagged with the port identity, and it is put back with ITS age.
#[kani::proof]
#[kani::unwind(9)]
#[kani::stub(<Duration as core::ops::Mul<u16>>::mul, verif_fm::stub_mul_window)]
fn c06_take_best_concrete_pair_keeps_age() {
    let own = PortIdentity { clock_identity: crate::config::ClockIdentity([1; 8]), port_number: 1 };
    let sender = PortIdentity { clock_identity: crate::config::ClockIdentity([2; 8]), port_number: 1 };
    let interval = TimeInterval(fixed::types::I48F16::from_bits(verif_fm::CONCRETE_INTERVAL_BITS));
    let mut bmca = Bmca::new(crate::config::AcceptAnyMaster, interval, own);
    let mut a = verif_fm::fixed_announce();
    a.header.source_port_identity = sender;
    a.header.sequence_id = 41;
    bmca.foreign_master_list.register_announce_message(&a.header, &a, verif_fm::dur_from_bits(1000));
    a.header.sequence_id = 42;
    bmca.foreign_master_list.register_announce_message(&a.header, &a, verif_fm::dur_from_bits(2000));
    assert!(verif_fm::n_messages_of(&bmca.foreign_master_list, 0) == 2);

    let best = bmca.take_best_port_announce_message().unwrap();
    assert!(best.identity == own && best.header.sequence_id == 42 && verif_fm::dur_bits(best.age) == 2000);
    assert!(verif_fm::n_messages_of(&bmca.foreign_master_list, 0) == 2);
    let (seq, age) = verif_fm::newest_of(&bmca.foreign_master_list, 0);
    assert!(seq == 42 && age == 2000);
    core::mem::forget(bmca);
}


// ---- modular call chain (see bmc::foreign_master::verif_fm): Bmca level ----
struct NdAccept(bool);
impl AcceptableMasterList for NdAccept {
    fn is_acceptable(&self, _identity: crate::config::ClockIdentity) -> bool { self.0 }
}
impl<A> Bmca<A> {
    /// stand-in for find_best_announce_message with the selection part of its contract only: the result is one
    /// of the (at most two) candidates, None iff there is none. That it is a *maximum* of the data set comparison
    /// is c05_find_best_is_a_maximum; take_best does not depend on which candidate wins.
    pub(crate) fn verif_stub_find_best(announce_messages: impl IntoIterator<Item = BestAnnounceMessage>) -> Option<BestAnnounceMessage> {
        let mut it = announce_messages.into_iter();
        let a = it.next();
        let b = it.next();
        core::mem::forget(it);
        match (a, b) {
            (None, _) => None,
            (Some(a), None) => Some(a),
            (Some(a), Some(b)) => if kani::any() { Some(a) } else { Some(b) },
        }
    }
}
impl<A: AcceptableMasterList> Bmca<A> {
    /// recording stand-in for Bmca::reregister_announce_message
    pub(crate) fn verif_rec_reregister(&mut self, header: &Header, announce_message: &AnnounceMessage, age: Duration) {
        verif_fm::rec_note(*header, *announce_message, age);
    }
}

/// take_best_port_announce_message: Erbest is one of the messages take_qualified hands out (none -> None),
/// tagged with the receiving port's identity, and exactly that message is re-registered WITH ITS OWN AGE
/// (so the record keeps ageing and expires with the window); nothing is re-registered when there is no Erbest.
#[kani::proof]
#[kani::unwind(9)]
#[kani::stub(ForeignMasterList::take_qualified_announce_messages, ForeignMasterList::verif_stub_take_qualified)]
#[kani::stub(Bmca::reregister_announce_message, Bmca::verif_rec_reregister)]
#[kani::stub(Bmca::find_best_announce_message, Bmca::verif_stub_find_best)]
fn c06_take_best_reregisters_erbest_with_its_age() {
    let own = any_port_identity();
    let interval = any_time_interval();
    let mut bmca = Bmca::new(NdAccept(kani::any()), interval, own);
    verif_fm::rec_reset();

    let best = bmca.take_best_port_announce_message();

    assert!(best.is_some() == (verif_fm::offered() > 0));
    match best {
        Some(b) => {
            assert!(b.identity == own);
            assert!(verif_fm::rec_calls() == 1);
            let (h, m, age) = verif_fm::rec_args().unwrap();
            assert!(h == b.header && m == b.message);
            assert!(age == verif_fm::dur_bits(b.age));
        }
        None => assert!(verif_fm::rec_calls() == 0),
    }
    kani::cover!(verif_fm::offered() == 2);
    kani::cover!(verif_fm::offered() == 0);
    core::mem::forget(bmca);
}

/// reregister_announce_message / register_announce_message: the message reaches the foreign-master list iff it
/// is not from this port and its sender is acceptable -- with the age handed in (re-register) or age zero (new).
#[kani::proof]
#[kani::unwind(9)]
#[kani::stub(ForeignMasterList::register_announce_message, ForeignMasterList::verif_rec_register)]
fn c06_reregister_hands_age_to_list() {
    let own = any_port_identity();
    let interval = any_time_interval();
    let accept: bool = kani::any();
    let mut bmca = Bmca::new(NdAccept(accept), interval, own);
    let a = verif_fm::any_announce();
    let h = any_header();
    let age: i128 = kani::any();
    kani::assume(age >= 0 && age < (1i128 << 100));
    let passes = a.header.source_port_identity != own && accept;

    verif_fm::rec_reset();
    bmca.reregister_announce_message(&h, &a, verif_fm::dur_from_bits(age));
    assert!(verif_fm::rec_calls() == passes as u32);
    if passes {
        let (rh, rm, rage) = verif_fm::rec_args().unwrap();
        assert!(rh == h && rm == a && rage == age);
    }

    verif_fm::rec_reset();
    let r = bmca.register_announce_message(&h, &a);
    assert!(r == passes && verif_fm::rec_calls() == passes as u32);
    if passes {
        let (rh, rm, rage) = verif_fm::rec_args().unwrap();
        assert!(rh == h && rm == a && rage == 0);
    }
    kani::cover!(passes);
    kani::cover!(!passes);
    core::mem::forget(bmca);
}

impl ForeignMasterList {
    pub(crate) fn verif_rec_step_age(&mut self, step: Duration) { verif_fm::rec_note_step(step); }
}
/// Bmca::step_age(step) is ForeignMasterList::step_age(step), once
#[kani::proof]
#[kani::unwind(9)]
#[kani::stub(ForeignMasterList::step_age, ForeignMasterList::verif_rec_step_age)]
fn c06_bmca_step_age_hands_step_to_list() {
    let own = any_port_identity();
    let mut bmca = Bmca::new(NdAccept(kani::any()), any_time_interval(), own);
    let step: i128 = kani::any();
    kani::assume(step >= 0 && step < (1i128 << 100));
    verif_fm::rec_reset();
    bmca.step_age(verif_fm::dur_from_bits(step));
    assert!(verif_fm::rec_calls() == 1 && verif_fm::rec_step() == Some(step));
    core::mem::forget(bmca);
}
