//! child module of port::sequence_id: generator/peek for the private counter, and the C10 contract
//! of `generate` (returns the current value, advances by one modulo 2^16) for all 65536 states.
#![allow(dead_code, missing_docs)]
use super::*;

pub(crate) fn any_seq_gen() -> SequenceIdGenerator {
    SequenceIdGenerator { current: kani::any() }
}
pub(crate) fn peek(g: &SequenceIdGenerator) -> u16 {
    g.current
}

#[kani::proof]
fn c10_sequence_id_generate_is_plus_one_mod_2_16() {
    let mut g = any_seq_gen();
    let before = g.current;
    let id = g.generate();
    assert!(id == before);
    assert!(g.current as u32 == (before as u32 + 1) % 65536);
    // new() starts at 0
    assert!(SequenceIdGenerator::new().current == 0);
    kani::cover!(before == 65535);
}
