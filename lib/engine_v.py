"""Engine V driver: extract a unit from /repo's current tree, run Verus, classify the outcome."""
import os, re, sys, json, subprocess, time, shutil

VERIF = os.path.dirname(os.path.dirname(os.path.abspath(__file__)))
sys.path.insert(0, os.path.join(VERIF, 'verus'))
import extract as E

Undecided = E.Undecided

SEMANTIC = re.compile(r'postcondition not satisfied|precondition not satisfied|assertion failed|'
                      r'possible arithmetic (under|over)flow|invariant not satisfied|possible division by zero|'
                      r'decreases not satisfied|possible bit shift|index out of bounds|'
                      r'recommendation not met|cannot show|unwrap|possible .*overflow|loop invariant')
RLIMIT = re.compile(r'Resource limit \(rlimit\) exceeded|rlimit exceeded|timed out|out of memory', re.I)


def rules():
    return E.RULES


def scratch_file(pid, unit):
    base = os.environ.get('VERIF_SCRATCH', '/var/tmp/statime-verif')
    d = os.path.join(base, f'verus.{pid}.{unit}.{os.getpid()}')
    os.makedirs(d, exist_ok=True)
    return d


def split_errors(stderr):
    """return list of (headline, block) for each `error...:` diagnostic."""
    blocks = re.split(r'(?m)^(?=error|note: |warning)', stderr)
    out = []
    for b in blocks:
        if b.startswith('error'):
            head = b.split('\n', 1)[0]
            if head.startswith('error: aborting due to'):
                continue
            out.append((head, b))
    return out


def fn_line_ranges(text):
    """map generated-file line numbers to the exec/proof function containing them (by `fn name` headers)."""
    ranges = []
    lines = text.split('\n')
    cur_impl = None
    for i, l in enumerate(lines, 1):
        m = re.match(r'^impl(?:<[^>]*>)?\s+(?:[A-Za-z0-9_:<>, ]+\s+for\s+)?([A-Za-z0-9_]+)', l)
        if m:
            cur_impl = m.group(1)
        if re.match(r'^(fn|proof fn|pub fn|pub proof fn|spec fn|pub open spec fn|pub closed spec fn)\b', l):
            cur_impl = None
        m = re.match(r'^\s*(?:pub(?:\([a-z]+\))?\s+)?(?:const\s+)?(?:proof\s+|exec\s+)?fn\s+([A-Za-z0-9_]+)', l)
        if m:
            ranges.append((i, (cur_impl + '::' if cur_impl and l.startswith(' ') else '') + m.group(1)))
    return ranges


def fn_at(ranges, line):
    best = None
    for start, name in ranges:
        if start <= line:
            best = name
        else:
            break
    return best


def run_unit(unit_name, pid, timeout_s=600):
    unit = E.load_unit(unit_name)
    E._src_cache.clear()
    try:
        text, catalogue = E.build_unit(unit)
    except E.Undecided as e:
        return dict(cmd='verus (extraction failed)', time_s=0.0, trusted=[], functions=[], undecided=str(e),
                    obligations=[], stderr_for={})
    d = scratch_file(pid, unit_name)
    src = os.path.join(d, unit_name + '.rs')
    open(src, 'w').write(text)
    # keep a copy of the last generated file for inspection
    gen_dir = os.path.join(VERIF, 'logs'); os.makedirs(gen_dir, exist_ok=True)
    shutil.copy(src, os.path.join(gen_dir, f'{pid}.verus.{unit_name}.rs'))
    cmd = ['verus', src, '--output-json', '--time', '--multiple-errors', '5'] + unit.get('verus_args', [])
    t0 = time.time()
    try:
        p = subprocess.run(cmd, cwd=d, capture_output=True, text=True, timeout=timeout_s)
        stdout, stderr, timed_out = p.stdout, p.stderr, False
    except subprocess.TimeoutExpired as e:
        stdout, stderr, timed_out = (e.stdout or b'').decode() if isinstance(e.stdout, bytes) else (e.stdout or ''), '', True
    wall = time.time() - t0
    open(os.path.join(gen_dir, f'{pid}.verus.{unit_name}.err'), 'w').write(stderr)
    shutil.rmtree(d, ignore_errors=True)
    try:
        os.rmdir(os.path.dirname(d))
    except OSError:
        pass

    trusted = []
    n_ext = len(re.findall(r'#\[verifier::external_body\]', text))
    if n_ext:
        trusted.append(f"verus unit {unit_name}: {n_ext} external_body shim functions with assumed contracts "
                       f"(shims: {', '.join(unit.get('shims', []))}): fixed/az arithmetic on bit patterns, core slice/array primitives")
    for kw in ('assume(', 'admit(', 'assume_specification', 'uninterp spec fn'):
        c = text.count(kw)
        if c:
            trusted.append(f"verus unit {unit_name}: {c} occurrence(s) of `{kw}`")
    for t in unit.get('trusted', []):
        trusted.append(f"verus unit {unit_name}: {t}")
    functions = [f"{c['file']}: {c['impl'] + ' ' if c['impl'] else ''}fn {c['fn']}" for c in catalogue]

    res = dict(cmd=' '.join(['verus', f'<extracted:{unit_name}.rs>', '--output-json', '--time', '--multiple-errors', '5']),
               time_s=round(wall, 2), trusted=trusted, functions=functions, undecided=None, obligations=[],
               stderr_for={})
    if timed_out:
        res['undecided'] = 'verus wall-clock cap hit'
        return res
    try:
        j = json.loads(stdout)
    except Exception:
        res['undecided'] = 'verus produced no JSON: ' + stderr[-500:]
        return res
    vr = j.get('verification-results', {})
    errors = split_errors(stderr)
    nonsem = [h for h, b in errors if not SEMANTIC.search(h)]
    if vr.get('encountered-vir-error') or 'times-ms' not in j or nonsem and not vr.get('verified'):
        res['undecided'] = 'extracted text not accepted by Verus (unsupported construct / compile error): ' + \
                           '; '.join(nonsem)[:600]
        return res
    if any(RLIMIT.search(b) for h, b in errors):
        res['undecided'] = 'verus resource limit exceeded'
    ranges = fn_line_ranges(text)
    err_by_fn = {}
    for h, b in errors:
        # attribute the error to the function containing its *primary* span (first --> line)
        m = re.search(r'-->\s+\S+?:(\d+):\d+', b)
        fn = fn_at(ranges, int(m.group(1))) if m else None
        err_by_fn.setdefault(fn, []).append(b)
    mods = j['times-ms']['smt']['smt-run-module-times']
    seen = {}
    for mod in mods:
        for f in mod.get('function-breakdown', []):
            if f.get('mode:') not in ('exec', 'proof'):
                continue
            name = f['function'].split('::', 1)[1] if '::' in f['function'] else f['function']
            if name.endswith('::clone'):
                continue
            key = name
            n = seen.get(key, 0); seen[key] = n + 1
            oname = f"{pid}/verus/{unit_name}/{name}" + (f"#{n + 1}" if n else '')
            is_canary = 'canary__' in name
            o = dict(name=oname, engine='verus', time_s=f.get('time', 0) / 1000.0, detail='')
            if is_canary:
                if f['success']:
                    o['verdict'] = 'undecided'
                    o['detail'] = 'vacuity canary verified: the precondition of this function is contradictory'
                    res['undecided'] = (res['undecided'] or '') + f' canary {name} verified;'
                else:
                    o['verdict'] = 'expected-fail'
            elif f['success']:
                o['verdict'] = 'discharged'
            else:
                short = name.split('::')[-1]
                blocks = err_by_fn.get(name) or err_by_fn.get(short) or []
                if not blocks:
                    # could not attribute: attach everything that is not a canary error
                    blocks = [b for fn, bs in err_by_fn.items() for b in bs if not (fn or '').startswith('canary__')
                              and 'canary__' not in (fn or '')]
                heads = [b.split('\n', 1)[0] for b in blocks]
                if any(RLIMIT.search(b) for b in blocks):
                    o['verdict'] = 'undecided'; o['detail'] = 'rlimit'
                else:
                    o['verdict'] = 'failed'
                    o['detail'] = '; '.join(dict.fromkeys(heads))[:600] or 'verification of this function failed'
                    res['stderr_for'][oname] = '\n'.join(blocks)[:6000]
            res['obligations'].append(o)
    n_ok = len([o for o in res['obligations'] if o['verdict'] == 'discharged'])
    if not res['obligations'] or n_ok == 0 and not any(o['verdict'] == 'failed' for o in res['obligations']):
        res['undecided'] = 'zero obligations generated (vacuity guard)'
    if len(res['obligations']) < unit.get('min_obligations', 1):
        res['undecided'] = f"only {len(res['obligations'])} obligations generated, catalogue expects >= {unit.get('min_obligations')}"
    return res


def make_replay(pid, v):
    d = os.path.join(VERIF, 'replays', pid); os.makedirs(d, exist_ok=True)
    short = re.sub(r'[^A-Za-z0-9_]+', '_', v['obligation'].split('/', 2)[-1])
    path = os.path.join(d, short + '.replay.json')
    json.dump(dict(property=pid, obligation=v['obligation'], engine='verus', unit=v.get('unit'),
                   failing_input=None,
                   note='Verus gives no counterexample; this file names the failed obligation and carries the verifier output',
                   verifier_output=v.get('output', '')), open(path, 'w'), indent=1)
    return path
