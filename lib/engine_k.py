"""Engine K: Kani on the real crate, annotated at check time.

prepare(): rsync the current /repo working tree to a scratch directory, append one
`#[cfg(kani)] #[path = ...] mod verif_*;` line per harness module (a child module sees its parent's
private items) and insert contract attributes above named functions. No executable token of the
crate is changed.  run(): `cargo kani` on the listed harnesses, parse per-harness / per-check results.
"""
import os, re, subprocess, shutil, json, time, signal

VERIF = os.path.dirname(os.path.dirname(os.path.abspath(__file__)))
REPO = os.environ.get("VERIF_REPO", "/repo")

# module file (relative to repo) -> (module name, harness file under kani/src)
INJECT = {
    'statime/src/lib.rs': [('verif_gen', 'gen.rs')],
    'statime/src/datastructures/messages/header.rs': [('verif_kani', 'header.rs')],
}


class Undecided(Exception):
    pass


def scratch_dir(tag):
    base = os.environ.get('VERIF_SCRATCH', '/var/tmp/statime-verif')
    return os.path.join(base, f"{tag}.{os.getpid()}")


def prepare(tag, inject=None, contracts=None, kani_src=None):
    inject = inject or INJECT
    kani_src = kani_src or os.path.join(VERIF, 'kani', 'src')
    d = scratch_dir(tag)
    if os.path.exists(d):
        shutil.rmtree(d)
    os.makedirs(d)
    subprocess.run(['rsync', '-a', '--exclude', 'target', '--exclude', '.git', '--exclude', 'seed_out',
                    REPO + '/', d + '/'], check=True)
    for rel, mods in inject.items():
        p = os.path.join(d, rel)
        if not os.path.exists(p):
            raise Undecided(f"lost anchor: module file {rel}")
        with open(p, 'a') as f:
            f.write('\n')
            for name, src in mods:
                f.write(f'#[cfg(kani)] #[path = "{kani_src}/{src}"] pub(crate) mod {name};\n')
    for c in (contracts or []):
        insert_attrs(os.path.join(d, c['file']), c['impl'], c['fn'], c['attrs'])
    os.makedirs(os.path.join(d, '.cargo'), exist_ok=True)
    with open(os.path.join(d, '.cargo', 'config.toml'), 'w') as f:
        f.write('[net]\noffline = true\n')
    return d


def insert_attrs(path, impl_header, fn_name, attrs):
    """insert attribute lines above `fn fn_name` inside the impl block whose header contains
    impl_header (or at file level when impl_header is None)."""
    s = open(path).read()
    start = 0
    if impl_header:
        m = re.search(re.escape(impl_header).replace(r'\ ', r'\s+'), s)
        if not m:
            raise Undecided(f"lost anchor: `{impl_header}` in {path}")
        start = m.end()
    m = re.compile(r'^([ \t]*)((pub(\([a-z]+\))?\s+)?(const\s+)?fn\s+' + re.escape(fn_name) + r'\b)', re.M).search(s, start)
    if not m:
        raise Undecided(f"lost anchor: fn {fn_name} in {path}")
    ind = m.group(1)
    ins = ''.join(f'{ind}{a}\n' for a in attrs)
    s = s[:m.start()] + ins + s[m.start():]
    open(path, 'w').write(s)


def cleanup(d):
    shutil.rmtree(d, ignore_errors=True)
    try:
        os.rmdir(os.path.dirname(d))
    except OSError:
        pass


def _parse_block(name, blk):
    rec = dict(name=name, status='UNKNOWN', checks=0, failed=0, failures=[], covers_unsat=0,
               covers=0, unreachable=0, undetermined=0, time_s=None, unwinding_failed=False)
    m = re.search(r'\*\* (\d+) of (\d+) failed(?: \((.*?)\))?', blk)
    if m:
        rec['failed'] = int(m.group(1)); rec['checks'] = int(m.group(2))
        extra = m.group(3) or ''
        u = re.search(r'(\d+) unreachable', extra)
        if u:
            rec['unreachable'] = int(u.group(1))
        u = re.search(r'(\d+) undetermined', extra)
        if u:
            rec['undetermined'] = int(u.group(1))
    m = re.search(r'\*\* (\d+) of (\d+) cover properties satisfied', blk)
    if m:
        rec['covers'] = int(m.group(2)); rec['covers_unsat'] = int(m.group(2)) - int(m.group(1))
    m = re.search(r'VERIFICATION:- (\w+)', blk)
    if m:
        rec['status'] = m.group(1)
    m = re.search(r'Verification Time: ([0-9.]+)s', blk)
    if m:
        rec['time_s'] = float(m.group(1))
    for fm in re.finditer(r'Failed Checks: (.*?)\n File: "(.*?)", line (\d+), in (\S+)', blk, re.S):
        desc, file, line, fn = fm.groups()
        desc = ' '.join(desc.split())
        rec['failures'].append(dict(description=desc, file=file, line=int(line), function=fn))
        if 'unwinding assertion' in desc:
            rec['unwinding_failed'] = True
    if 'CBMC failed' in blk or 'out of memory' in blk.lower():
        rec['status'] = 'ERROR'
    return rec


def parse_output(out):
    """split cargo-kani (terse, -j) output into per-harness records."""
    res = {}
    cur = {}          # thread id -> harness name
    blocks = {}       # harness -> text
    active = None
    for line in out.splitlines():
        m = re.match(r'^(?:Thread (\d+): )?Checking harness (\S+?)\.\.\.', line)
        if m:
            th = m.group(1) or '0'
            cur[th] = m.group(2)
            blocks.setdefault(m.group(2), '')
            active = m.group(2) if m.group(1) is None else None
            continue
        m = re.match(r'^Thread (\d+): ?(.*)$', line)
        if m:
            active = cur.get(m.group(1))
            if active is not None:
                blocks[active] += m.group(2) + '\n'
            continue
        if line.startswith('Manual Harness Summary') or line.startswith('Complete - '):
            active = None
            continue
        if active is not None:
            blocks[active] += line + '\n'
    for name, blk in blocks.items():
        res[name] = _parse_block(name, blk)
    return res


def run(d, harnesses, timeout_s=900, jobs=None, extra=None, package_dir='statime', default_unwind=None):
    """run cargo kani for the given harness names (exact match). Returns (results, raw_output, wall)."""
    jobs = jobs or int(os.environ.get('VERIF_JOBS', '8'))
    cmd = ['cargo', 'kani', '-Z', 'function-contracts', '-Z', 'stubbing', '-j', str(jobs), '--no-assertion-reach-checks',
           '--output-format', 'terse']
    if default_unwind:
        cmd += ['--default-unwind', str(default_unwind)]
    cmd += (extra or [])
    for h in harnesses:
        cmd += ['--harness', h]
    env = dict(os.environ, CARGO_NET_OFFLINE='true', CARGO_TARGET_DIR=os.path.join(d, 'target'))
    t0 = time.time()
    def _limits():
        import resource
        os.setsid()
        lim = int(os.environ.get('VERIF_MEM_GB', '48')) << 30
        resource.setrlimit(resource.RLIMIT_AS, (lim, lim))
    p = subprocess.Popen(cmd, cwd=os.path.join(d, package_dir), env=env, stdout=subprocess.PIPE,
                         stderr=subprocess.STDOUT, text=True, preexec_fn=_limits)
    try:
        out, _ = p.communicate(timeout=timeout_s)
        timed_out = False
    except subprocess.TimeoutExpired:
        os.killpg(p.pid, signal.SIGKILL)
        out, _ = p.communicate()
        timed_out = True
    wall = time.time() - t0
    res = parse_output(out)
    for h in harnesses:
        if h not in res or res[h]['status'] == 'UNKNOWN':
            res[h] = dict(name=h, status='TIMEOUT' if timed_out else 'MISSING', checks=0, failed=0,
                          failures=[], covers_unsat=0, covers=0, unreachable=0, undetermined=0,
                          time_s=None, unwinding_failed=False)
    return res, out, wall, p.returncode, timed_out
