"""Engine X: execute a small Rust test against the real crate (scratch copy of /repo's working tree).
Used only for finite enumerations a deductive tool cannot reach (f64 powi); always labelled
'enumerated by execution', never counted as a proof obligation discharged by a verifier."""
import os, re, subprocess, shutil, time, json
VERIF = os.path.dirname(os.path.dirname(os.path.abspath(__file__)))
REPO = os.environ.get("VERIF_REPO", "/repo")


def run(ex, pid):
    base = os.environ.get('VERIF_SCRATCH', '/var/tmp/statime-verif')
    d = os.path.join(base, f"exec.{pid}.{os.getpid()}")
    if os.path.exists(d):
        shutil.rmtree(d)
    os.makedirs(d)
    t0 = time.time()
    name = ex['name']
    res = dict(name=f"{pid}/exec/{name}", cmd=f"cargo test -p statime --offline --test {name} (test file exec/{name}.rs injected into a scratch copy)",
               verdict='undecided', detail='', time_s=0.0)
    try:
        subprocess.run(['rsync', '-a', '--exclude', 'target', '--exclude', '.git', '--exclude', 'seed_out', REPO + '/', d + '/'], check=True)
        os.makedirs(os.path.join(d, 'statime', 'tests'), exist_ok=True)
        shutil.copy(os.path.join(VERIF, 'exec', name + '.rs'), os.path.join(d, 'statime', 'tests', name + '.rs'))
        env = dict(os.environ, CARGO_NET_OFFLINE='true', CARGO_TARGET_DIR=os.path.join(d, 'target'))
        p = subprocess.run(['cargo', 'test', '-p', 'statime', '--offline', '--test', name, '--', '--nocapture'],
                           cwd=d, env=env, capture_output=True, text=True, timeout=ex.get('timeout', 900))
        out = p.stdout + p.stderr
        m = re.search(r'test result: (\w+)\. (\d+) passed; (\d+) failed', out)
        if 'could not compile' in out or not m:
            res['detail'] = 'test does not compile/run against the current tree: ' + out[-400:]
        elif p.returncode == 0 and int(m.group(3)) == 0 and int(m.group(2)) > 0:
            res['verdict'] = 'discharged'
            e = re.search(r'ENUMERATED (\d+)', out)
            res['detail'] = f"{e.group(1)} inputs executed" if e else ''
        else:
            res['verdict'] = 'failed'
            fm = re.search(r"panicked at .*?\n(.*?)\n", out)
            res['detail'] = (fm.group(0) if fm else out[-300:])[:400]
            rd = os.path.join(VERIF, 'replays', pid); os.makedirs(rd, exist_ok=True)
            rp = os.path.join(rd, name + '.replay.json')
            json.dump(dict(property=pid, obligation=res['name'], engine='exec', test_file=f'exec/{name}.rs',
                           output=out[-4000:]), open(rp, 'w'), indent=1)
            res['replay'] = rp
    except Exception as e:
        res['detail'] = str(e)
    finally:
        shutil.rmtree(d, ignore_errors=True)
    res['time_s'] = round(time.time() - t0, 2)
    return res
