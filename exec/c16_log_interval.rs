//! C16 clause "log-interval values map to exactly 2^n seconds": decided by executing the real functions on
//! all 256 i8 inputs and comparing with exact integer arithmetic (labelled: enumerated by execution).
//! 10^9 = 2^9 * 1953125, resolution 2^-32 ns, range +-2^95 ns: 2^n s is exactly representable for
//! -41 <= n <= 65; below that only the floor is representable; n >= 66 overflows I96F32 (the conversion
//! saturates/wraps or panics -- outside the property's domain, not checked).
use statime::time::{Duration, Interval};

fn exact_bits(n: i32) -> Option<i128> {
    // 2^n s = 10^9 * 2^n ns = 1953125 * 2^(n+9) ns = 1953125 * 2^(n+41) in 2^-32 ns units
    let sh = n + 41;
    if sh >= 0 && sh <= 106 { Some(1953125i128 << sh) } else { None }
}

#[test]
fn log_interval_is_exactly_two_to_the_n_seconds() {
    let mut count = 0;
    for n in i8::MIN..=i8::MAX {
        if (n as i32) > 65 { continue; }
        let d = Duration::from_log_interval(n);
        let bits: i128 = d.nanos().to_bits();
        match exact_bits(n as i32) {
            Some(b) => assert_eq!(bits, b, "2^{n} s"),
            None => {
                // not exactly representable (n <= -42): within one unit of 2^-32 ns of 1953125 * 2^(n+41)
                let sh = -((n as i32) + 41);
                let floor = if sh >= 127 { 0 } else { 1953125i128 >> (sh as u32) };
                assert!(bits == floor || bits == floor + 1, "2^{n} s to 2^-32 ns");
            }
        }
        // Interval::as_duration agrees
        assert_eq!(Interval::from_log_2(n).as_duration(), d);
        if (-30..=30).contains(&(n as i32)) {
            assert_eq!(Interval::from_log_2(n).seconds(), 2f64.powi(n as i32));
        }
        count += 1;
    }
    println!("ENUMERATED {count}");
}
